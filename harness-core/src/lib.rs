//! Harness crate for solver-based checking of mcginty/snow (see /verif/DESIGN.md).
//! Builds natively (reference model, toy primitives, stubs: used by /verif/replay) and under `cargo kani`
//! (the `proofs` module).
#![allow(clippy::all)]
#![allow(dead_code)]

pub mod prims;
pub mod rm;
pub mod seed;
pub mod stubs;
pub mod toy;
pub mod glue;
pub mod grammar;
#[cfg(feature = "real")]
pub mod real;

#[cfg(kani)]
mod proofs;

/// Native replay of a solver counterexample: `cargo kani playback -Z concrete-playback -- replay_from_file`
/// with VERIF_REPLAY_FILE=<text file: harness name, then one line of decimal bytes per kani::any() value>.
#[cfg(all(kani, test))]
mod replay {
    #[test]
    fn replay_from_file() {
        let path = std::env::var("VERIF_REPLAY_FILE").expect("VERIF_REPLAY_FILE");
        let txt = std::fs::read_to_string(path).unwrap();
        let mut lines = txt.lines();
        let name = lines.next().unwrap().trim().to_string();
        let vals: Vec<Vec<u8>> = lines
            .map(|l| l.split_whitespace().map(|x| x.parse::<u8>().unwrap()).collect())
            .collect();
        let f = crate::proofs::registry::lookup(&name).expect("unknown harness");
        crate::stubs::reset_all();
        let r = std::panic::catch_unwind(std::panic::AssertUnwindSafe(|| kani::concrete_playback_run(vals, f)));
        match r {
            Ok(()) => println!("REPLAY-RESULT: passed ({name})"),
            Err(e) => {
                let msg = e.downcast_ref::<String>().cloned().or_else(|| e.downcast_ref::<&str>().map(|s| s.to_string())).unwrap_or_default();
                // a trace that ends early, or an assumption that does not hold natively, means that the native run
                // took a different path than the solver's model: the counterexample did NOT reproduce
                if msg.contains("Not enough det vals") || msg.contains("should always hold") {
                    println!("REPLAY-RESULT: diverged ({name}): {msg}");
                } else {
                    println!("REPLAY-RESULT: reproduced ({name}): {msg}");
                }
            },
        }
    }
}
