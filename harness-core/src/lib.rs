//! Harness crate for solver-based checking of mcginty/snow (see /verif/DESIGN.md).
//! Builds natively (reference model, toy primitives, stubs: used by /verif/replay) and under `cargo kani`
//! (the `proofs` module).
#![allow(clippy::all)]
#![allow(dead_code)]

pub mod prims;
pub mod rm;
pub mod seed;
pub mod stubs;
pub mod toy;
pub mod glue;

#[cfg(kani)]
mod proofs;
