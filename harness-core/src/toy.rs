//! "Free" toy primitives: cheap, data-dependent, position- and length-sensitive functions over bytes.
//! They stand in for hash / KDF / AEAD / DH in *equational* checks: if snow composes primitives the
//! way the reference model does, outputs are equal under ANY interpretation, so a toy interpretation
//! can never raise a false alarm. All loops are index loops (cheap for CBMC's symex).

/// Seed-selected constants: different VERIF_SEED => different free interpretation.
pub const SEED: u64 = crate::seed::SEED;
const C0: u64 = 0x9E37_79B9_7F4A_7C15 ^ SEED.wrapping_mul(0x0101_0101_0101_0101);
const C1: u64 = 0xC2B2_AE3D_27D4_EB4F ^ SEED.rotate_left(17);

/// Running hash state: accumulator + number of bytes absorbed.
#[derive(Clone, Copy)]
pub struct HState {
    pub acc: u64,
    pub len: u32,
}

pub const H_INIT: HState = HState { acc: C0, len: 0 };

#[inline(always)]
fn step(acc: u64, b: u8) -> u64 {
    // rotate (position sensitivity) + add (non-linearity over GF(2)) + xor
    acc.rotate_left(7) ^ (b as u64) ^ (acc >> 5) ^ 0x6B
}

#[inline(always)]
pub fn h_absorb(st: &mut HState, data: &[u8]) {
    let mut acc = st.acc;
    let n = data.len();
    let mut j = 0;
    while j < n {
        acc = step(acc, data[j]);
        j += 1;
    }
    st.acc = acc;
    st.len = st.len.wrapping_add(n as u32);
}

/// Write `hl` output bytes derived from the state.
#[inline(always)]
pub fn h_finish(st: &HState, hl: usize, out: &mut [u8]) {
    let a = step(step(st.acc, st.len as u8), (st.len >> 8) as u8) ^ C1;
    let le = a.to_le_bytes();
    let mut i = 0;
    while i < hl {
        // bytes 0..8 are the accumulator itself (injective in `a`); later bytes are rotations of it
        out[i] = if i < 8 { le[i] } else { (a.rotate_left(((i * 5) % 61) as u32) as u8) ^ (i as u8) };
        i += 1;
    }
}

/// Direct toy KDF (stands in for Noise HKDF when the stub `Hash` overrides `hkdf`):
/// out_j = finish(absorb(absorb(init_j, ck), ikm)) for j = 1..=outputs.
#[inline(always)]
pub fn kdf(hl: usize, ck: &[u8], ikm: &[u8], outputs: usize, o1: &mut [u8], o2: &mut [u8], o3: &mut [u8]) {
    let mut st = HState { acc: C1, len: 0 };
    h_absorb(&mut st, ck);
    h_absorb(&mut st, ikm);
    let base = st;
    let mut s1 = base;
    s1.acc = step(s1.acc, 1);
    h_finish(&s1, hl, o1);
    if outputs >= 2 {
        let mut s2 = base;
        s2.acc = step(s2.acc, 2).rotate_left(13);
        h_finish(&s2, hl, o2);
    }
    if outputs >= 3 {
        let mut s3 = base;
        s3.acc = step(s3.acc, 3).rotate_left(29);
        h_finish(&s3, hl, o3);
    }
}

pub const TAG: usize = 16;

#[inline(always)]
fn ks(key: &[u8; 32], nonce: u64, i: usize) -> u8 {
    let nb = nonce.to_le_bytes();
    key[i % 32].rotate_left((i % 7) as u32) ^ nb[i % 8] ^ (i as u8).wrapping_mul(29) ^ key[(i + 11) % 32]
}

#[inline(always)]
fn tag(key: &[u8; 32], nonce: u64, ad: &[u8], ct: &[u8], out: &mut [u8]) {
    let mut a: u64 = C0 ^ nonce.rotate_left(9);
    let mut j = 0;
    while j < 32 {
        a = step(a, key[j]);
        j += 1;
    }
    a = step(a, ad.len() as u8);
    let mut j = 0;
    while j < ad.len() {
        a = step(a, ad[j]);
        j += 1;
    }
    let mut b: u64 = a.rotate_left(31) ^ C1 ^ nonce;
    b = step(b, ct.len() as u8);
    let mut j = 0;
    while j < ct.len() {
        b = step(b, ct[j]);
        j += 1;
    }
    a = a ^ b.rotate_left(3);
    let al = a.to_le_bytes();
    let bl = b.to_le_bytes();
    let mut i = 0;
    while i < 8 {
        out[i] = al[i];
        out[8 + i] = bl[i];
        i += 1;
    }
}

/// Toy AEAD encrypt: out = pt ^ keystream || tag(key, nonce, ad, ct). Returns pt.len()+16.
#[inline(always)]
pub fn aead_encrypt(key: &[u8; 32], nonce: u64, ad: &[u8], pt: &[u8], out: &mut [u8]) -> usize {
    let n = pt.len();
    let mut i = 0;
    while i < n {
        out[i] = pt[i] ^ ks(key, nonce, i);
        i += 1;
    }
    let mut t = [0u8; TAG];
    tag(key, nonce, ad, &out[..n], &mut t);
    let mut i = 0;
    while i < TAG {
        out[n + i] = t[i];
        i += 1;
    }
    n + TAG
}

/// Toy AEAD decrypt: verifies the tag first; on mismatch `out` is untouched.
#[inline(always)]
pub fn aead_decrypt(key: &[u8; 32], nonce: u64, ad: &[u8], ct: &[u8], out: &mut [u8]) -> Option<usize> {
    if ct.len() < TAG {
        return None;
    }
    let n = ct.len() - TAG;
    let mut t = [0u8; TAG];
    tag(key, nonce, ad, &ct[..n], &mut t);
    let mut ok = true;
    let mut i = 0;
    while i < TAG {
        if t[i] != ct[n + i] {
            ok = false;
        }
        i += 1;
    }
    if !ok {
        return None;
    }
    let mut i = 0;
    while i < n {
        out[i] = ct[i] ^ ks(key, nonce, i);
        i += 1;
    }
    Some(n)
}

/// Straight-line variant for the reference model: always writes the plaintext, returns whether the tag verified.
/// Requires ct.len() >= 16.
#[inline(always)]
pub fn aead_decrypt_always(key: &[u8; 32], nonce: u64, ad: &[u8], ct: &[u8], out: &mut [u8]) -> bool {
    let n = ct.len() - TAG;
    let mut t = [0u8; TAG];
    tag(key, nonce, ad, &ct[..n], &mut t);
    let mut ok = true;
    let mut i = 0;
    while i < TAG {
        ok &= t[i] == ct[n + i];
        i += 1;
    }
    let mut i = 0;
    while i < n {
        out[i] = ct[i] ^ ks(key, nonce, i);
        i += 1;
    }
    ok
}

#[inline(always)]
fn perm(b: u8) -> u8 {
    b.rotate_left(3) ^ 0x5A
}

/// pub = P(priv) bytewise (a bijection), so every byte string is a valid public key.
#[inline(always)]
pub fn dh_pub(pl: usize, privk: &[u8], out: &mut [u8]) {
    let mut i = 0;
    while i < pl {
        out[i] = perm(privk[i]);
        i += 1;
    }
}

#[inline(always)]
fn comm(x: u8, y: u8) -> u8 {
    // commutative, non-linear
    x.wrapping_add(y) ^ (x & y).rotate_left(3)
}

/// dh(a, B)[i] = comm(P(a)[i], B[i]) folded to `dl` bytes: dh(a, pub(b)) == dh(b, pub(a)) and nothing else
/// is guaranteed.
#[inline(always)]
pub fn dh(pl: usize, dl: usize, privk: &[u8], pubk: &[u8], out: &mut [u8]) {
    let mut i = 0;
    while i < dl {
        out[i] = 0;
        i += 1;
    }
    let mut i = 0;
    while i < pl {
        let c = comm(perm(privk[i]), pubk[i]);
        let j = i % dl;
        out[j] = out[j].rotate_left(1) ^ c.wrapping_add(i as u8);
        i += 1;
    }
}
