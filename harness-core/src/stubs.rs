//! Abstract primitives implementing snow's public traits `types::{Hash, Cipher, Dh, Random}`; handed to the
//! real code exactly as a user's custom resolver would hand them. State lives in `static mut` arrays indexed
//! by a const-generic id (zero-sized objects): measured ~5x cheaper for CBMC than state inside the boxed object.
//! Single-threaded by construction (Kani harnesses and replay tests serialise access with `LOCK`).

#![allow(static_mut_refs)]

use crate::toy;
use rand_core::{CryptoRng, RngCore};
use snow::{
    types::{Cipher, Dh, Hash, Random},
    Error,
};

pub const NH: usize = 4;
pub const NC: usize = 8;
pub const ND: usize = 6;
pub const DHMAX: usize = 8;

// ------------------------------------------------------------------------------------------------ hash

pub static mut HST: [toy::HState; NH] = [toy::H_INIT; NH];

/// Free toy hash. `hkdf` is overridden (trait method) with the direct toy KDF.
pub struct SHash<const HL: usize, const ID: usize>;

impl<const HL: usize, const ID: usize> Hash for SHash<HL, ID> {
    fn name(&self) -> &'static str {
        "TOYHASH"
    }
    fn block_len(&self) -> usize {
        if HL > 32 {
            128
        } else {
            64
        }
    }
    fn hash_len(&self) -> usize {
        HL
    }
    fn reset(&mut self) {
        unsafe { HST[ID] = toy::H_INIT }
    }
    fn input(&mut self, data: &[u8]) {
        unsafe { toy::h_absorb(&mut HST[ID], data) }
    }
    fn result(&mut self, out: &mut [u8]) {
        unsafe { toy::h_finish(&HST[ID], HL, out) }
    }
    fn hkdf(&mut self, ck: &[u8], ikm: &[u8], outputs: usize, o1: &mut [u8], o2: &mut [u8], o3: &mut [u8]) {
        toy::kdf(HL, ck, ikm, outputs, o1, o2, o3)
    }
}

/// Same toy hash, but `hmac`/`hkdf` are snow's *default trait methods* (the code under test in C18).
pub struct SHashDefaultKdf<const HL: usize, const ID: usize>;

impl<const HL: usize, const ID: usize> Hash for SHashDefaultKdf<HL, ID> {
    fn name(&self) -> &'static str {
        "TOYHASH"
    }
    fn block_len(&self) -> usize {
        if HL > 32 {
            128
        } else {
            64
        }
    }
    fn hash_len(&self) -> usize {
        HL
    }
    fn reset(&mut self) {
        unsafe { HST[ID] = toy::H_INIT }
    }
    fn input(&mut self, data: &[u8]) {
        unsafe { toy::h_absorb(&mut HST[ID], data) }
    }
    fn result(&mut self, out: &mut [u8]) {
        unsafe { toy::h_finish(&HST[ID], HL, out) }
    }
}

// ---------------------------------------------------------------------------------------------- cipher

pub static mut CKEY: [[u8; 32]; NC] = [[0u8; 32]; NC];
/// number of `set` calls per cipher object (key epoch)
pub static mut CSETS: [u32; NC] = [0; NC];

/// Free toy AEAD. `rekey` is NOT overridden: snow's default trait method runs.
pub struct SCipher<const ID: usize>;

impl<const ID: usize> Cipher for SCipher<ID> {
    fn name(&self) -> &'static str {
        "TOYAEAD"
    }
    fn set(&mut self, key: &[u8; 32]) {
        unsafe {
            CKEY[ID] = *key;
            CSETS[ID] = CSETS[ID].wrapping_add(1);
        }
    }
    fn encrypt(&self, nonce: u64, ad: &[u8], pt: &[u8], out: &mut [u8]) -> usize {
        unsafe { toy::aead_encrypt(&CKEY[ID], nonce, ad, pt, out) }
    }
    fn decrypt(&self, nonce: u64, ad: &[u8], ct: &[u8], out: &mut [u8]) -> Result<usize, Error> {
        match unsafe { toy::aead_decrypt(&CKEY[ID], nonce, ad, ct, out) } {
            Some(n) => Ok(n),
            None => Err(Error::Decrypt),
        }
    }
}

pub fn cipher_key(id: usize) -> [u8; 32] {
    unsafe { CKEY[id] }
}
pub fn set_cipher_key(id: usize, k: &[u8; 32]) {
    unsafe { CKEY[id] = *k }
}

// -------------------------------------------------------------------------------------------------- dh

pub static mut DPRIV: [[u8; DHMAX]; ND] = [[0u8; DHMAX]; ND];
pub static mut DPUB: [[u8; DHMAX]; ND] = [[0u8; DHMAX]; ND];

/// Free toy DH with public-key length PL (= private-key length) and shared-secret length DL.
pub struct SDh<const PL: usize, const DL: usize, const ID: usize>;

impl<const PL: usize, const DL: usize, const ID: usize> Dh for SDh<PL, DL, ID> {
    fn name(&self) -> &'static str {
        "TOYDH"
    }
    fn pub_len(&self) -> usize {
        PL
    }
    fn priv_len(&self) -> usize {
        PL
    }
    fn dh_len(&self) -> usize {
        DL
    }
    fn set(&mut self, privkey: &[u8]) {
        unsafe {
            let mut i = 0;
            while i < PL {
                DPRIV[ID][i] = privkey[i];
                i += 1;
            }
            toy::dh_pub(PL, &DPRIV[ID], &mut DPUB[ID]);
        }
    }
    fn generate(&mut self, rng: &mut dyn Random) {
        unsafe {
            rng.fill_bytes(&mut DPRIV[ID][..PL]);
            toy::dh_pub(PL, &DPRIV[ID], &mut DPUB[ID]);
        }
    }
    fn pubkey(&self) -> &[u8] {
        unsafe { &DPUB[ID][..PL] }
    }
    fn privkey(&self) -> &[u8] {
        unsafe { &DPRIV[ID][..PL] }
    }
    fn dh(&self, pubkey: &[u8], out: &mut [u8]) -> Result<(), Error> {
        unsafe { toy::dh(PL, DL, &DPRIV[ID], pubkey, out) };
        Ok(())
    }
}

pub fn dh_set_priv(id: usize, pl: usize, privk: &[u8]) {
    unsafe {
        let mut i = 0;
        while i < pl {
            DPRIV[id][i] = privk[i];
            i += 1;
        }
        toy::dh_pub(pl, &DPRIV[id], &mut DPUB[id]);
    }
}

// ------------------------------------------------------------------------------------------------- rng

pub const RNG_SLOTS: usize = 4;
/// Values the stub RNG hands out, one slot per `fill_bytes` call (the harness fills them with `kani::any()`).
pub static mut RNG_POOL: [[u8; DHMAX]; RNG_SLOTS] = [[0u8; DHMAX]; RNG_SLOTS];
pub static mut RNG_DRAWS: usize = 0;
pub static mut RNG_BYTES: usize = 0;

pub struct SRng;

impl RngCore for SRng {
    fn next_u32(&mut self) -> u32 {
        let mut b = [0u8; 4];
        self.fill_bytes(&mut b);
        u32::from_le_bytes(b)
    }
    fn next_u64(&mut self) -> u64 {
        let mut b = [0u8; 8];
        self.fill_bytes(&mut b);
        u64::from_le_bytes(b)
    }
    fn fill_bytes(&mut self, dest: &mut [u8]) {
        unsafe {
            let slot = RNG_DRAWS % RNG_SLOTS;
            let mut i = 0;
            while i < dest.len() {
                dest[i] = RNG_POOL[slot][i % DHMAX];
                i += 1;
            }
            RNG_DRAWS += 1;
            RNG_BYTES += dest.len();
        }
    }
    fn try_fill_bytes(&mut self, dest: &mut [u8]) -> Result<(), rand_core::Error> {
        self.fill_bytes(dest);
        Ok(())
    }
}
impl CryptoRng for SRng {}
impl Random for SRng {}

/// Reset every static (native replay runs several scenarios in one process).
pub fn reset_all() {
    unsafe {
        HST = [toy::H_INIT; NH];
        CKEY = [[0u8; 32]; NC];
        CSETS = [0; NC];
        DPRIV = [[0u8; DHMAX]; ND];
        DPUB = [[0u8; DHMAX]; ND];
        RNG_POOL = [[0u8; DHMAX]; RNG_SLOTS];
        RNG_DRAWS = 0;
        RNG_BYTES = 0;
    }
}
