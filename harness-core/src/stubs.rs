//! Abstract primitives implementing snow's public traits `types::{Hash, Cipher, Dh, Random}`; handed to the
//! real code exactly as a user's custom resolver would hand them. State lives in `static mut` arrays indexed
//! by a const-generic id (zero-sized objects): measured ~5x cheaper for CBMC than state inside the boxed object.
//! Single-threaded by construction (Kani harnesses and replay tests serialise access with `LOCK`).

#![allow(static_mut_refs)]

use crate::toy;
use rand_core::{CryptoRng, RngCore};
use snow::{
    types::{Cipher, Dh, Hash, Random},
    Error,
};

pub const NH: usize = 4;
pub const NC: usize = 8;
pub const ND: usize = 6;
pub const DHMAX: usize = 8;

// ------------------------------------------------------------------------------------------------ hash

pub static mut HST: [toy::HState; NH] = [toy::H_INIT; NH];

/// Free toy hash. `hkdf` is overridden (trait method) with the direct toy KDF.
pub struct SHash<const HL: usize, const ID: usize>;

impl<const HL: usize, const ID: usize> Hash for SHash<HL, ID> {
    fn name(&self) -> &'static str {
        "TOYHASH"
    }
    fn block_len(&self) -> usize {
        if HL > 32 {
            128
        } else {
            64
        }
    }
    fn hash_len(&self) -> usize {
        HL
    }
    fn reset(&mut self) {
        unsafe { HST[ID] = toy::H_INIT }
    }
    fn input(&mut self, data: &[u8]) {
        unsafe { toy::h_absorb(&mut HST[ID], data) }
    }
    fn result(&mut self, out: &mut [u8]) {
        unsafe { toy::h_finish(&HST[ID], HL, out) }
    }
    fn hkdf(&mut self, ck: &[u8], ikm: &[u8], outputs: usize, o1: &mut [u8], o2: &mut [u8], o3: &mut [u8]) {
        toy::kdf(HL, ck, ikm, outputs, o1, o2, o3)
    }
}

/// Same toy hash, but `hmac`/`hkdf` are snow's *default trait methods* (the code under test in C18).
pub struct SHashDefaultKdf<const HL: usize, const ID: usize>;

impl<const HL: usize, const ID: usize> Hash for SHashDefaultKdf<HL, ID> {
    fn name(&self) -> &'static str {
        "TOYHASH"
    }
    fn block_len(&self) -> usize {
        if HL > 32 {
            128
        } else {
            64
        }
    }
    fn hash_len(&self) -> usize {
        HL
    }
    fn reset(&mut self) {
        unsafe { HST[ID] = toy::H_INIT }
    }
    fn input(&mut self, data: &[u8]) {
        unsafe { toy::h_absorb(&mut HST[ID], data) }
    }
    fn result(&mut self, out: &mut [u8]) {
        unsafe { toy::h_finish(&HST[ID], HL, out) }
    }
}

// ---------------------------------------------------------------------------------------------- cipher

pub static mut CKEY: [[u8; 32]; NC] = [[0u8; 32]; NC];
/// number of `set` calls per cipher object (key epoch)
pub static mut CSETS: [u32; NC] = [0; NC];

/// Free toy AEAD. `rekey` is NOT overridden: snow's default trait method runs.
pub struct SCipher<const ID: usize>;

impl<const ID: usize> Cipher for SCipher<ID> {
    fn name(&self) -> &'static str {
        "TOYAEAD"
    }
    fn set(&mut self, key: &[u8; 32]) {
        unsafe {
            CKEY[ID] = *key;
            CSETS[ID] = CSETS[ID].wrapping_add(1);
        }
    }
    fn encrypt(&self, nonce: u64, ad: &[u8], pt: &[u8], out: &mut [u8]) -> usize {
        unsafe { toy::aead_encrypt(&CKEY[ID], nonce, ad, pt, out) }
    }
    fn decrypt(&self, nonce: u64, ad: &[u8], ct: &[u8], out: &mut [u8]) -> Result<usize, Error> {
        match unsafe { toy::aead_decrypt(&CKEY[ID], nonce, ad, ct, out) } {
            Some(n) => Ok(n),
            None => Err(Error::Decrypt),
        }
    }
}

pub fn cipher_key(id: usize) -> [u8; 32] {
    unsafe { CKEY[id] }
}
pub fn set_cipher_key(id: usize, k: &[u8; 32]) {
    unsafe { CKEY[id] = *k }
}

// ----------------------------------------------------------------------------- oracle / length-only

/// Call log and preset verdicts of the oracle cipher objects.
pub static mut O_ENC_CALLS: [u32; NC] = [0; NC];
pub static mut O_ENC_NONCE: [u64; NC] = [0; NC];
pub static mut O_ENC_ADLEN: [usize; NC] = [0; NC];
pub static mut O_ENC_PTLEN: [usize; NC] = [0; NC];
pub static mut O_DEC_CALLS: [u32; NC] = [0; NC];
pub static mut O_DEC_NONCE: [u64; NC] = [0; NC];
pub static mut O_DEC_ADLEN: [usize; NC] = [0; NC];
pub static mut O_DEC_CTLEN: [usize; NC] = [0; NC];
/// verdict the next `decrypt` of object ID returns (the harness makes it symbolic)
pub static mut O_DEC_VERDICT: [bool; NC] = [true; NC];
/// 1-based index of the `decrypt` call of object ID that is rejected regardless of the verdict (0 = none)
pub static mut O_DEC_FAIL_AT: [u32; NC] = [0; NC];
/// nonces seen by the first four encrypt / decrypt calls of object ID
pub static mut O_ENC_NONCES: [[u64; 4]; NC] = [[0; 4]; NC];
pub static mut O_DEC_NONCES: [[u64; 4]; NC] = [[0; 4]; NC];
/// set when any encrypt/decrypt of object ID was given the reserved nonce 2^64-1
pub static mut O_SAW_MAX: [bool; NC] = [false; NC];
/// set when a call violated the buffer contract every built-in backend has (natively: slice-index panic)
pub static mut O_CONTRACT_BROKEN: bool = false;
/// when false the oracle moves no data at all (pure length-only stub, used with 66000-byte buffers)
pub static mut O_COPY: bool = true;

/// Oracle AEAD: `encrypt` copies the plaintext and appends a marker tag, `decrypt` returns the preset verdict
/// and, when accepting, copies ciphertext-minus-tag. Both are O(1) in symex (slice copies, no byte loops), record
/// their arguments, and check the buffer contract of the built-in backends:
/// encrypt needs out.len() >= pt.len()+16, decrypt needs ct.len() >= 16 and out.len() >= ct.len()-16.
pub struct OCipher<const ID: usize>;

impl<const ID: usize> Cipher for OCipher<ID> {
    fn name(&self) -> &'static str {
        "ORACLEAEAD"
    }
    fn set(&mut self, key: &[u8; 32]) {
        unsafe {
            CKEY[ID] = *key;
            CSETS[ID] = CSETS[ID].wrapping_add(1);
        }
    }
    fn encrypt(&self, nonce: u64, ad: &[u8], pt: &[u8], out: &mut [u8]) -> usize {
        unsafe {
            if (O_ENC_CALLS[ID] as usize) < 4 {
                O_ENC_NONCES[ID][O_ENC_CALLS[ID] as usize] = nonce;
            }
            O_ENC_CALLS[ID] = O_ENC_CALLS[ID].wrapping_add(1);
            O_ENC_NONCE[ID] = nonce;
            O_ENC_ADLEN[ID] = ad.len();
            O_ENC_PTLEN[ID] = pt.len();
            if nonce == u64::MAX {
                O_SAW_MAX[ID] = true;
            }
            if out.len() < pt.len() + 16 {
                O_CONTRACT_BROKEN = true;
                assert!(false, "Cipher::encrypt called with an output buffer smaller than plaintext + 16-byte tag (built-in backends panic here)");
                return 0;
            }
        }
        let n = pt.len();
        if unsafe { O_COPY } {
            out[..n].copy_from_slice(pt);
            out[n..n + 16].copy_from_slice(&[0xA5u8; 16]);
        }
        n + 16
    }
    fn decrypt(&self, nonce: u64, ad: &[u8], ct: &[u8], out: &mut [u8]) -> Result<usize, Error> {
        unsafe {
            if (O_DEC_CALLS[ID] as usize) < 4 {
                O_DEC_NONCES[ID][O_DEC_CALLS[ID] as usize] = nonce;
            }
            O_DEC_CALLS[ID] = O_DEC_CALLS[ID].wrapping_add(1);
            O_DEC_NONCE[ID] = nonce;
            O_DEC_ADLEN[ID] = ad.len();
            O_DEC_CTLEN[ID] = ct.len();
            if nonce == u64::MAX {
                O_SAW_MAX[ID] = true;
            }
            if ct.len() < 16 || out.len() < ct.len() - 16 {
                O_CONTRACT_BROKEN = true;
                assert!(false, "Cipher::decrypt called with a ciphertext shorter than the tag or an output buffer smaller than the plaintext (built-in backends panic here)");
                return Err(Error::Decrypt);
            }
            if !O_DEC_VERDICT[ID] || O_DEC_FAIL_AT[ID] == O_DEC_CALLS[ID] {
                return Err(Error::Decrypt);
            }
        }
        let n = ct.len() - 16;
        if unsafe { O_COPY } {
            out[..n].copy_from_slice(&ct[..n]);
        }
        Ok(n)
    }
}

/// Length-only hash: O(1) in data length (absorbs only lengths).
pub struct LHash<const HL: usize, const ID: usize>;

impl<const HL: usize, const ID: usize> Hash for LHash<HL, ID> {
    fn name(&self) -> &'static str {
        "LENHASH"
    }
    fn block_len(&self) -> usize {
        64
    }
    fn hash_len(&self) -> usize {
        HL
    }
    fn reset(&mut self) {
        unsafe { HST[ID] = toy::H_INIT }
    }
    fn input(&mut self, data: &[u8]) {
        unsafe {
            // lengths only: reading even one byte back out of a 66000-byte buffer that was just filled by a
            // symbolic-length copy makes CBMC materialise the whole copy (measured: > 12 GB)
            HST[ID].len = HST[ID].len.wrapping_add(data.len() as u32);
            HST[ID].acc = HST[ID].acc.rotate_left(9) ^ (data.len() as u64);
        }
    }
    fn result(&mut self, out: &mut [u8]) {
        unsafe { toy::h_finish(&HST[ID], HL, out) }
    }
    fn hkdf(&mut self, ck: &[u8], ikm: &[u8], outputs: usize, o1: &mut [u8], o2: &mut [u8], o3: &mut [u8]) {
        let st = toy::HState { acc: (ck.len() as u64) << 8 | (ikm.len() as u64), len: outputs as u32 };
        toy::h_finish(&st, HL, o1);
        if outputs >= 2 {
            toy::h_finish(&st, HL, o2);
        }
        if outputs >= 3 {
            toy::h_finish(&st, HL, o3);
        }
    }
}

// ------------------------------------------------------------------------------------------- ideal aead

/// Ideal AEAD functionality: every `encrypt` is logged; `decrypt` accepts exactly the logged tuples
/// (same key bytes, nonce, associated data and ciphertext) and nothing else, so "accepted" means "was produced by
/// an encryption under this key and nonce" with no toy-tag collisions. The ciphertext body is the toy keystream
/// XOR (so that REKEY depends on the key), the tag is the log index.
pub const ILOG: usize = 12;
pub const IMAX: usize = 40;
pub const IAD: usize = 8;

#[derive(Clone, Copy)]
pub struct IEntry {
    pub obj: usize,
    pub key: [u8; 32],
    pub nonce: u64,
    pub ad: [u8; IAD],
    pub adlen: usize,
    pub pt: [u8; IMAX],
    pub len: usize,
}
pub const IENTRY0: IEntry = IEntry { obj: 0, key: [0u8; 32], nonce: 0, ad: [0u8; IAD], adlen: 0, pt: [0u8; IMAX], len: 0 };
pub static mut I_LOG: [IEntry; ILOG] = [IENTRY0; ILOG];
pub static mut I_N: usize = 0;
/// index of the log entry the last successful decrypt of object ID matched
pub static mut I_MATCH: [usize; NC] = [usize::MAX; NC];

#[inline(always)]
fn iks(key: &[u8; 32], nonce: u64, i: usize) -> u8 {
    let nb = nonce.to_le_bytes();
    key[i % 32].rotate_left((i % 5) as u32) ^ nb[i % 8] ^ (i as u8).wrapping_mul(17)
}

pub struct ICipher<const ID: usize>;

impl<const ID: usize> Cipher for ICipher<ID> {
    fn name(&self) -> &'static str {
        "IDEALAEAD"
    }
    fn set(&mut self, key: &[u8; 32]) {
        unsafe {
            CKEY[ID] = *key;
            CSETS[ID] = CSETS[ID].wrapping_add(1);
        }
    }
    fn encrypt(&self, nonce: u64, ad: &[u8], pt: &[u8], out: &mut [u8]) -> usize {
        unsafe {
            let idx = I_N;
            assert!(idx < ILOG && pt.len() <= IMAX && ad.len() <= IAD, "harness bound: ideal AEAD log capacity");
            let n = pt.len();
            let mut e = IENTRY0;
            e.obj = ID;
            e.key = CKEY[ID];
            e.nonce = nonce;
            e.adlen = ad.len();
            let mut i = 0;
            while i < ad.len() {
                e.ad[i] = ad[i];
                i += 1;
            }
            e.len = n;
            let mut i = 0;
            while i < n {
                e.pt[i] = pt[i];
                out[i] = pt[i] ^ iks(&CKEY[ID], nonce, i);
                i += 1;
            }
            let mut i = 0;
            while i < 16 {
                out[n + i] = (idx as u8) ^ 0xC0;
                i += 1;
            }
            I_LOG[idx] = e;
            I_N = idx + 1;
            n + 16
        }
    }
    fn decrypt(&self, nonce: u64, ad: &[u8], ct: &[u8], out: &mut [u8]) -> Result<usize, Error> {
        unsafe {
            if ct.len() < 16 {
                return Err(Error::Decrypt);
            }
            let n = ct.len() - 16;
            let t = ct[n];
            let mut ok = true;
            let mut i = 0;
            while i < 16 {
                ok &= ct[n + i] == t;
                i += 1;
            }
            let idx = (t ^ 0xC0) as usize;
            if !ok || idx >= I_N || idx >= ILOG || n > IMAX || ad.len() > IAD {
                return Err(Error::Decrypt);
            }
            let e = &I_LOG[idx];
            ok &= e.nonce == nonce && e.adlen == ad.len() && e.len == n;
            let mut i = 0;
            while i < 32 {
                ok &= e.key[i] == CKEY[ID][i];
                i += 1;
            }
            let mut i = 0;
            while i < IAD {
                if i < ad.len() {
                    ok &= e.ad[i] == ad[i];
                }
                i += 1;
            }
            let mut i = 0;
            while i < IMAX {
                if i < n {
                    ok &= (e.pt[i] ^ iks(&CKEY[ID], nonce, i)) == ct[i];
                }
                i += 1;
            }
            if !ok {
                return Err(Error::Decrypt);
            }
            let mut i = 0;
            while i < IMAX {
                if i < n {
                    out[i] = e.pt[i];
                }
                i += 1;
            }
            I_MATCH[ID] = idx;
            Ok(n)
        }
    }
}

// -------------------------------------------------------------------------------------------------- dh

pub static mut DPRIV: [[u8; DHMAX]; ND] = [[0u8; DHMAX]; ND];
pub static mut DPUB: [[u8; DHMAX]; ND] = [[0u8; DHMAX]; ND];

/// Free toy DH with public-key length PL (= private-key length) and shared-secret length DL.
pub struct SDh<const PL: usize, const DL: usize, const ID: usize>;

impl<const PL: usize, const DL: usize, const ID: usize> Dh for SDh<PL, DL, ID> {
    fn name(&self) -> &'static str {
        "TOYDH"
    }
    fn pub_len(&self) -> usize {
        PL
    }
    fn priv_len(&self) -> usize {
        PL
    }
    fn dh_len(&self) -> usize {
        DL
    }
    fn set(&mut self, privkey: &[u8]) {
        unsafe {
            let mut i = 0;
            while i < PL {
                DPRIV[ID][i] = privkey[i];
                i += 1;
            }
            toy::dh_pub(PL, &DPRIV[ID], &mut DPUB[ID]);
        }
    }
    fn generate(&mut self, rng: &mut dyn Random) {
        unsafe {
            rng.fill_bytes(&mut DPRIV[ID][..PL]);
            toy::dh_pub(PL, &DPRIV[ID], &mut DPUB[ID]);
        }
    }
    fn pubkey(&self) -> &[u8] {
        unsafe { &DPUB[ID][..PL] }
    }
    fn privkey(&self) -> &[u8] {
        unsafe { &DPRIV[ID][..PL] }
    }
    fn dh(&self, pubkey: &[u8], out: &mut [u8]) -> Result<(), Error> {
        unsafe { toy::dh(PL, DL, &DPRIV[ID], pubkey, out) };
        Ok(())
    }
}

pub fn dh_set_priv(id: usize, pl: usize, privk: &[u8]) {
    unsafe {
        let mut i = 0;
        while i < pl {
            DPRIV[id][i] = privk[i];
            i += 1;
        }
        toy::dh_pub(pl, &DPRIV[id], &mut DPUB[id]);
    }
}

// ------------------------------------------------------------------------------------------------- rng

pub const RNG_SLOTS: usize = 4;
/// Values the stub RNG hands out, one slot per `fill_bytes` call (the harness fills them with `kani::any()`).
pub static mut RNG_POOL: [[u8; DHMAX]; RNG_SLOTS] = [[0u8; DHMAX]; RNG_SLOTS];
pub static mut RNG_DRAWS: usize = 0;
pub static mut RNG_BYTES: usize = 0;

pub struct SRng;

impl RngCore for SRng {
    fn next_u32(&mut self) -> u32 {
        let mut b = [0u8; 4];
        self.fill_bytes(&mut b);
        u32::from_le_bytes(b)
    }
    fn next_u64(&mut self) -> u64 {
        let mut b = [0u8; 8];
        self.fill_bytes(&mut b);
        u64::from_le_bytes(b)
    }
    fn fill_bytes(&mut self, dest: &mut [u8]) {
        unsafe {
            let slot = RNG_DRAWS % RNG_SLOTS;
            let mut i = 0;
            while i < dest.len() {
                dest[i] = RNG_POOL[slot][i % DHMAX];
                i += 1;
            }
            RNG_DRAWS += 1;
            RNG_BYTES += dest.len();
        }
    }
    fn try_fill_bytes(&mut self, dest: &mut [u8]) -> Result<(), rand_core::Error> {
        self.fill_bytes(dest);
        Ok(())
    }
}
impl CryptoRng for SRng {}
impl Random for SRng {}

/// Reset every static (native replay runs several scenarios in one process).
pub fn reset_all() {
    unsafe {
        HST = [toy::H_INIT; NH];
        CKEY = [[0u8; 32]; NC];
        CSETS = [0; NC];
        DPRIV = [[0u8; DHMAX]; ND];
        DPUB = [[0u8; DHMAX]; ND];
        RNG_POOL = [[0u8; DHMAX]; RNG_SLOTS];
        RNG_DRAWS = 0;
        RNG_BYTES = 0;
        O_ENC_CALLS = [0; NC];
        O_ENC_NONCE = [0; NC];
        O_ENC_ADLEN = [0; NC];
        O_ENC_PTLEN = [0; NC];
        O_DEC_CALLS = [0; NC];
        O_DEC_NONCE = [0; NC];
        O_DEC_ADLEN = [0; NC];
        O_DEC_CTLEN = [0; NC];
        O_DEC_VERDICT = [true; NC];
        O_DEC_FAIL_AT = [0; NC];
        O_ENC_NONCES = [[0; 4]; NC];
        O_DEC_NONCES = [[0; 4]; NC];
        O_SAW_MAX = [false; NC];
        O_CONTRACT_BROKEN = false;
        O_COPY = true;
        G_LOG = [GENTRY0; GLOG];
        G_N = 0;
        I_LOG = [IENTRY0; ILOG];
        I_N = 0;
        I_MATCH = [usize::MAX; NC];
    }
}

// ------------------------------------------------------------------------------- C06: ghost log

/// Hybrid hash for sessions with 65535-byte payloads: data of up to 64 bytes is absorbed byte by byte (free toy
/// hash), longer data only through its length and first 8 bytes - O(1) in the payload length.
pub struct HHash<const HL: usize, const ID: usize>;

impl<const HL: usize, const ID: usize> Hash for HHash<HL, ID> {
    fn name(&self) -> &'static str {
        "HYBRIDHASH"
    }
    fn block_len(&self) -> usize {
        64
    }
    fn hash_len(&self) -> usize {
        HL
    }
    fn reset(&mut self) {
        unsafe { HST[ID] = toy::H_INIT }
    }
    fn input(&mut self, data: &[u8]) {
        unsafe {
            if data.len() <= 64 {
                toy::h_absorb(&mut HST[ID], data)
            } else {
                toy::h_absorb(&mut HST[ID], &data[..8]);
                toy::h_absorb(&mut HST[ID], &(data.len() as u64).to_le_bytes());
            }
        }
    }
    fn result(&mut self, out: &mut [u8]) {
        unsafe { toy::h_finish(&HST[ID], HL, out) }
    }
    fn hkdf(&mut self, ck: &[u8], ikm: &[u8], outputs: usize, o1: &mut [u8], o2: &mut [u8], o3: &mut [u8]) {
        toy::kdf(HL, ck, ikm, outputs, o1, o2, o3)
    }
}

/// Every `encrypt` of the ghost-logging cipher: which key, which nonce, which input (AD, plaintext length and
/// first 4 plaintext bytes). Shared by all objects (the log is per session endpoint pair).
pub const GLOG: usize = 8;
#[derive(Clone, Copy)]
pub struct GEntry {
    pub key: [u8; 32],
    pub nonce: u64,
    pub ad: [u8; 8],
    pub adlen: usize,
    pub ptlen: usize,
    pub pt4: [u8; 4],
}
pub const GENTRY0: GEntry = GEntry { key: [0u8; 32], nonce: 0, ad: [0u8; 8], adlen: 0, ptlen: 0, pt4: [0u8; 4] };
pub static mut G_LOG: [GEntry; GLOG] = [GENTRY0; GLOG];
pub static mut G_N: usize = 0;

/// Logging AEAD, O(1) in the plaintext length (no data is moved; the "ciphertext" is whatever the buffer held).
pub struct GCipher<const ID: usize>;

impl<const ID: usize> Cipher for GCipher<ID> {
    fn name(&self) -> &'static str {
        "GHOSTAEAD"
    }
    fn set(&mut self, key: &[u8; 32]) {
        unsafe {
            CKEY[ID] = *key;
        }
    }
    fn encrypt(&self, nonce: u64, ad: &[u8], pt: &[u8], out: &mut [u8]) -> usize {
        unsafe {
            assert!(G_N < GLOG && ad.len() <= 8, "harness bound: ghost log capacity");
            assert!(out.len() >= pt.len() + 16, "Cipher::encrypt called with an output buffer smaller than plaintext + 16-byte tag (built-in backends panic here)");
            let mut e = GENTRY0;
            e.key = CKEY[ID];
            e.nonce = nonce;
            e.adlen = ad.len();
            let mut i = 0;
            while i < ad.len() {
                e.ad[i] = ad[i];
                i += 1;
            }
            e.ptlen = pt.len();
            let mut i = 0;
            while i < 4 {
                if i < pt.len() {
                    e.pt4[i] = pt[i];
                }
                i += 1;
            }
            G_LOG[G_N] = e;
            G_N += 1;
        }
        pt.len() + 16
    }
    fn decrypt(&self, _nonce: u64, _ad: &[u8], ct: &[u8], _out: &mut [u8]) -> Result<usize, Error> {
        Ok(ct.len() - 16)
    }
}

/// true iff two logged encryptions used the same key and nonce for different inputs
pub fn ghost_log_has_reuse() -> bool {
    unsafe {
        let mut bad = false;
        let mut a = 0;
        while a < GLOG {
            let mut b = a + 1;
            while b < GLOG {
                if a < G_N && b < G_N {
                    let (x, y) = (&G_LOG[a], &G_LOG[b]);
                    let mut same_key = true;
                    let mut i = 0;
                    while i < 32 {
                        same_key &= x.key[i] == y.key[i];
                        i += 1;
                    }
                    if same_key && x.nonce == y.nonce {
                        let mut same_in = x.adlen == y.adlen && x.ptlen == y.ptlen;
                        let mut i = 0;
                        while i < 8 {
                            same_in &= x.ad[i] == y.ad[i];
                            i += 1;
                        }
                        let mut i = 0;
                        while i < 4 {
                            same_in &= x.pt4[i] == y.pt4[i];
                            i += 1;
                        }
                        if !same_in {
                            bad = true;
                        }
                    }
                }
                b += 1;
            }
            a += 1;
        }
        bad
    }
}

// -------------------------------------------------------------------------------------------- resolver

/// Contract-faithful DH stub for builder checks: like the built-in `Dh25519::set`, `set` zero-pads short keys and
/// cannot take a key longer than `priv_len` (the built-in copies into a fixed array and panics).
pub struct KDh<const PL: usize, const ID: usize>;

impl<const PL: usize, const ID: usize> Dh for KDh<PL, ID> {
    fn name(&self) -> &'static str {
        "TOYDH"
    }
    fn pub_len(&self) -> usize {
        PL
    }
    fn priv_len(&self) -> usize {
        PL
    }
    fn set(&mut self, privkey: &[u8]) {
        unsafe {
            if privkey.len() > PL {
                O_CONTRACT_BROKEN = true;
                assert!(false, "Dh::set called with a private key longer than priv_len (the built-in Dh25519 / P256 panic here)");
                return;
            }
            let mut i = 0;
            while i < PL {
                DPRIV[ID][i] = if i < privkey.len() { privkey[i] } else { 0 };
                i += 1;
            }
            toy::dh_pub(PL, &DPRIV[ID], &mut DPUB[ID]);
        }
    }
    fn generate(&mut self, rng: &mut dyn Random) {
        unsafe {
            rng.fill_bytes(&mut DPRIV[ID][..PL]);
            toy::dh_pub(PL, &DPRIV[ID], &mut DPUB[ID]);
        }
    }
    fn pubkey(&self) -> &[u8] {
        unsafe { &DPUB[ID][..PL] }
    }
    fn privkey(&self) -> &[u8] {
        unsafe { &DPRIV[ID][..PL] }
    }
    fn dh(&self, pubkey: &[u8], out: &mut [u8]) -> Result<(), Error> {
        unsafe { toy::dh(PL, PL, &DPRIV[ID], pubkey, out) };
        Ok(())
    }
}

/// Resolver over the O(1) stubs whose availability per primitive kind is given by flags.
pub struct StubResolver {
    pub rng: bool,
    pub dh: bool,
    pub cipher: bool,
    pub hash: bool,
}

pub static mut RES_DH_CALLS: usize = 0;
pub static mut RES_CIPHER_CALLS: usize = 0;

impl snow::resolvers::CryptoResolver for StubResolver {
    fn resolve_rng(&self) -> Option<Box<dyn Random>> {
        if self.rng {
            Some(Box::new(SRng))
        } else {
            None
        }
    }
    fn resolve_dh(&self, _: &snow::params::DHChoice) -> Option<Box<dyn Dh>> {
        if !self.dh {
            return None;
        }
        unsafe {
            RES_DH_CALLS += 1;
            if RES_DH_CALLS == 1 {
                Some(Box::new(KDh::<4, 0>))
            } else {
                Some(Box::new(KDh::<4, 1>))
            }
        }
    }
    fn resolve_hash(&self, _: &snow::params::HashChoice) -> Option<Box<dyn Hash>> {
        if self.hash {
            Some(Box::new(LHash::<8, 0>))
        } else {
            None
        }
    }
    fn resolve_cipher(&self, _: &snow::params::CipherChoice) -> Option<Box<dyn Cipher>> {
        if !self.cipher {
            return None;
        }
        unsafe {
            RES_CIPHER_CALLS += 1;
            match RES_CIPHER_CALLS {
                1 => Some(Box::new(OCipher::<0>)),
                2 => Some(Box::new(OCipher::<1>)),
                _ => Some(Box::new(OCipher::<2>)),
            }
        }
    }
}

// ---------------------------------------------------------------------------- C20: tagged resolvers

/// Objects that only carry the identity of the resolver that produced them (through `name()` / RNG output).
pub struct TCipher<const T: u8>;
impl<const T: u8> Cipher for TCipher<T> {
    fn name(&self) -> &'static str {
        if T == 0 {
            "A"
        } else {
            "B"
        }
    }
    fn set(&mut self, _: &[u8; 32]) {}
    fn encrypt(&self, _: u64, _: &[u8], pt: &[u8], _: &mut [u8]) -> usize {
        pt.len() + 16
    }
    fn decrypt(&self, _: u64, _: &[u8], ct: &[u8], _: &mut [u8]) -> Result<usize, Error> {
        Ok(ct.len() - 16)
    }
}
pub struct THash<const T: u8>;
impl<const T: u8> Hash for THash<T> {
    fn name(&self) -> &'static str {
        if T == 0 {
            "A"
        } else {
            "B"
        }
    }
    fn block_len(&self) -> usize {
        64
    }
    fn hash_len(&self) -> usize {
        32
    }
    fn reset(&mut self) {}
    fn input(&mut self, _: &[u8]) {}
    fn result(&mut self, _: &mut [u8]) {}
}
pub struct TDh<const T: u8>;
impl<const T: u8> Dh for TDh<T> {
    fn name(&self) -> &'static str {
        if T == 0 {
            "A"
        } else {
            "B"
        }
    }
    fn pub_len(&self) -> usize {
        4
    }
    fn priv_len(&self) -> usize {
        4
    }
    fn set(&mut self, _: &[u8]) {}
    fn generate(&mut self, _: &mut dyn Random) {}
    fn pubkey(&self) -> &[u8] {
        &[0u8; 4]
    }
    fn privkey(&self) -> &[u8] {
        &[0u8; 4]
    }
    fn dh(&self, _: &[u8], _: &mut [u8]) -> Result<(), Error> {
        Ok(())
    }
}
pub struct TRng<const T: u8>;
impl<const T: u8> RngCore for TRng<T> {
    fn next_u32(&mut self) -> u32 {
        T as u32
    }
    fn next_u64(&mut self) -> u64 {
        T as u64
    }
    fn fill_bytes(&mut self, dest: &mut [u8]) {
        let mut i = 0;
        while i < dest.len() {
            dest[i] = T;
            i += 1;
        }
    }
    fn try_fill_bytes(&mut self, dest: &mut [u8]) -> Result<(), rand_core::Error> {
        self.fill_bytes(dest);
        Ok(())
    }
}
impl<const T: u8> CryptoRng for TRng<T> {}
impl<const T: u8> Random for TRng<T> {}

/// Resolver whose availability is given per (primitive kind, choice): bit i of each mask = choice number i.
pub struct TagResolver<const T: u8> {
    pub rng: bool,
    pub dh: u8,
    pub cipher: u8,
    pub hash: u8,
}

pub fn dh_idx(c: &snow::params::DHChoice) -> u8 {
    match c {
        snow::params::DHChoice::Curve25519 => 0,
        _ => 1,
    }
}
pub fn cipher_idx(c: &snow::params::CipherChoice) -> u8 {
    match c {
        snow::params::CipherChoice::ChaChaPoly => 0,
        _ => 1,
    }
}
pub fn hash_idx(c: &snow::params::HashChoice) -> u8 {
    match c {
        snow::params::HashChoice::SHA256 => 0,
        snow::params::HashChoice::SHA512 => 1,
        snow::params::HashChoice::Blake2s => 2,
        snow::params::HashChoice::Blake2b => 3,
    }
}

impl<const T: u8> snow::resolvers::CryptoResolver for TagResolver<T> {
    fn resolve_rng(&self) -> Option<Box<dyn Random>> {
        if self.rng {
            Some(Box::new(TRng::<T>))
        } else {
            None
        }
    }
    fn resolve_dh(&self, c: &snow::params::DHChoice) -> Option<Box<dyn Dh>> {
        if self.dh & (1 << dh_idx(c)) != 0 {
            Some(Box::new(TDh::<T>))
        } else {
            None
        }
    }
    fn resolve_hash(&self, c: &snow::params::HashChoice) -> Option<Box<dyn Hash>> {
        if self.hash & (1 << hash_idx(c)) != 0 {
            Some(Box::new(THash::<T>))
        } else {
            None
        }
    }
    fn resolve_cipher(&self, c: &snow::params::CipherChoice) -> Option<Box<dyn Cipher>> {
        if self.cipher & (1 << cipher_idx(c)) != 0 {
            Some(Box::new(TCipher::<T>))
        } else {
            None
        }
    }
}


/// Resolver over the FREE toy primitives (endpoint A ids): lets the real `Builder` be compared with the reference
/// model byte for byte (what the builder passes on - name, prologue, keys, PSKs - must arrive unaltered).
pub struct ToyResolver;
pub static mut TOY_DH_CALLS: usize = 0;
pub static mut TOY_CIPHER_CALLS: usize = 0;
impl snow::resolvers::CryptoResolver for ToyResolver {
    fn resolve_rng(&self) -> Option<Box<dyn Random>> {
        Some(Box::new(SRng))
    }
    fn resolve_dh(&self, _: &snow::params::DHChoice) -> Option<Box<dyn Dh>> {
        unsafe {
            TOY_DH_CALLS += 1;
            if TOY_DH_CALLS == 1 {
                Some(Box::new(SDh::<4, 4, 0>))
            } else {
                Some(Box::new(SDh::<4, 4, 1>))
            }
        }
    }
    fn resolve_hash(&self, _: &snow::params::HashChoice) -> Option<Box<dyn Hash>> {
        Some(Box::new(SHash::<8, 0>))
    }
    fn resolve_cipher(&self, _: &snow::params::CipherChoice) -> Option<Box<dyn Cipher>> {
        unsafe {
            TOY_CIPHER_CALLS += 1;
            match TOY_CIPHER_CALLS {
                1 => Some(Box::new(SCipher::<0>)),
                2 => Some(Box::new(SCipher::<1>)),
                _ => Some(Box::new(SCipher::<2>)),
            }
        }
    }
}


/// Same for endpoint B ids.
pub struct ToyResolverB;
pub static mut TOYB_DH_CALLS: usize = 0;
pub static mut TOYB_CIPHER_CALLS: usize = 0;
impl snow::resolvers::CryptoResolver for ToyResolverB {
    fn resolve_rng(&self) -> Option<Box<dyn Random>> {
        Some(Box::new(SRng))
    }
    fn resolve_dh(&self, _: &snow::params::DHChoice) -> Option<Box<dyn Dh>> {
        unsafe {
            TOYB_DH_CALLS += 1;
            if TOYB_DH_CALLS == 1 {
                Some(Box::new(SDh::<4, 4, 2>))
            } else {
                Some(Box::new(SDh::<4, 4, 3>))
            }
        }
    }
    fn resolve_hash(&self, _: &snow::params::HashChoice) -> Option<Box<dyn Hash>> {
        Some(Box::new(SHash::<8, 1>))
    }
    fn resolve_cipher(&self, _: &snow::params::CipherChoice) -> Option<Box<dyn Cipher>> {
        unsafe {
            TOYB_CIPHER_CALLS += 1;
            match TOYB_CIPHER_CALLS {
                1 => Some(Box::new(SCipher::<3>)),
                2 => Some(Box::new(SCipher::<4>)),
                _ => Some(Box::new(SCipher::<5>)),
            }
        }
    }
}
