//! Primitive interface of the reference model. The reference model is generic over it, so the same
//! model text runs (a) under Kani over the toy primitives, inside the same solver query as snow's real
//! state machines, and (b) natively over real primitives against the repository's pinned vectors.

use crate::toy;

pub const MAXH: usize = 64;
pub const MAXB: usize = 128;
pub const MAXDH: usize = 65;

pub trait Prims {
    /// hash output length, hash block length
    const HL: usize;
    const BL: usize;
    /// public key length, private key length, DH output length
    const PL: usize;
    const SL: usize;
    const DL: usize;
    type H;
    fn h_new() -> Self::H;
    fn h_absorb(st: &mut Self::H, d: &[u8]);
    /// writes HL bytes
    fn h_finish(st: &mut Self::H, out: &mut [u8]);
    fn encrypt(k: &[u8; 32], n: u64, ad: &[u8], pt: &[u8], out: &mut [u8]) -> usize;
    /// writes ct.len()-16 plaintext bytes to `out` regardless; returns whether the tag verified
    fn decrypt(k: &[u8; 32], n: u64, ad: &[u8], ct: &[u8], out: &mut [u8]) -> bool;
    fn pubkey(privk: &[u8], out: &mut [u8]);
    fn dh(privk: &[u8], pubk: &[u8], out: &mut [u8]) -> bool;

    /// HASH(a || b)
    fn hash2(a: &[u8], b: &[u8], out: &mut [u8]) {
        let mut st = Self::h_new();
        Self::h_absorb(&mut st, a);
        Self::h_absorb(&mut st, b);
        Self::h_finish(&mut st, out);
    }

    /// HMAC-HASH(key, data), RFC 2104, written from the RFC text.
    fn hmac(key: &[u8], data: &[u8], out: &mut [u8]) {
        // K0: key zero-padded to the block length (keys longer than a block are hashed first; Noise never
        // does that, HASHLEN <= BLOCKLEN, kept for completeness of the RFC definition)
        let mut k0 = [0u8; MAXB];
        if key.len() > Self::BL {
            let mut st = Self::h_new();
            Self::h_absorb(&mut st, key);
            Self::h_finish(&mut st, &mut k0);
        } else {
            let mut i = 0;
            while i < key.len() {
                k0[i] = key[i];
                i += 1;
            }
        }
        let mut ipad = [0u8; MAXB];
        let mut opad = [0u8; MAXB];
        let mut i = 0;
        while i < Self::BL {
            ipad[i] = k0[i] ^ 0x36;
            opad[i] = k0[i] ^ 0x5c;
            i += 1;
        }
        let mut inner = [0u8; MAXH];
        let mut st = Self::h_new();
        Self::h_absorb(&mut st, &ipad[..Self::BL]);
        Self::h_absorb(&mut st, data);
        Self::h_finish(&mut st, &mut inner);
        let mut st = Self::h_new();
        Self::h_absorb(&mut st, &opad[..Self::BL]);
        Self::h_absorb(&mut st, &inner[..Self::HL]);
        Self::h_finish(&mut st, out);
    }

    /// Noise HKDF(chaining_key, input_key_material, num_outputs), spec section 4.3.
    fn hkdf(ck: &[u8], ikm: &[u8], n: usize, o1: &mut [u8], o2: &mut [u8], o3: &mut [u8]) {
        let hl = Self::HL;
        let mut temp = [0u8; MAXH];
        Self::hmac(ck, ikm, &mut temp);
        Self::hmac(&temp[..hl], &[1u8], o1);
        if n < 2 {
            return;
        }
        let mut buf = [0u8; MAXH + 1];
        let mut i = 0;
        while i < hl {
            buf[i] = o1[i];
            i += 1;
        }
        buf[hl] = 2;
        Self::hmac(&temp[..hl], &buf[..hl + 1], o2);
        if n < 3 {
            return;
        }
        let mut i = 0;
        while i < hl {
            buf[i] = o2[i];
            i += 1;
        }
        buf[hl] = 3;
        Self::hmac(&temp[..hl], &buf[..hl + 1], o3);
    }
}

/// Toy primitives with the given shape; `hkdf` is the direct toy KDF (mirrors the stub `Hash`,
/// which overrides the `hkdf` trait method — snow's default `hmac`/`hkdf` are checked on their own in C18).
pub struct Toy<const HL: usize, const PL: usize, const DL: usize>;

impl<const HL: usize, const PL: usize, const DL: usize> Prims for Toy<HL, PL, DL> {
    const HL: usize = HL;
    const BL: usize = if HL > 32 { 128 } else { 64 };
    const PL: usize = PL;
    const SL: usize = PL;
    const DL: usize = DL;
    type H = toy::HState;
    #[inline(always)]
    fn h_new() -> toy::HState {
        toy::H_INIT
    }
    #[inline(always)]
    fn h_absorb(st: &mut toy::HState, d: &[u8]) {
        toy::h_absorb(st, d)
    }
    #[inline(always)]
    fn h_finish(st: &mut toy::HState, out: &mut [u8]) {
        toy::h_finish(st, HL, out)
    }
    #[inline(always)]
    fn encrypt(k: &[u8; 32], n: u64, ad: &[u8], pt: &[u8], out: &mut [u8]) -> usize {
        toy::aead_encrypt(k, n, ad, pt, out)
    }
    #[inline(always)]
    fn decrypt(k: &[u8; 32], n: u64, ad: &[u8], ct: &[u8], out: &mut [u8]) -> bool {
        toy::aead_decrypt_always(k, n, ad, ct, out)
    }
    #[inline(always)]
    fn pubkey(privk: &[u8], out: &mut [u8]) {
        toy::dh_pub(PL, privk, out)
    }
    #[inline(always)]
    fn dh(privk: &[u8], pubk: &[u8], out: &mut [u8]) -> bool {
        toy::dh(PL, DL, privk, pubk, out);
        true
    }
    #[inline(always)]
    fn hkdf(ck: &[u8], ikm: &[u8], n: usize, o1: &mut [u8], o2: &mut [u8], o3: &mut [u8]) {
        toy::kdf(HL, ck, ikm, n, o1, o2, o3)
    }
}

/// Same toy hash, but HKDF is the RFC/Noise construction of the trait default (used by C18's check of
/// snow's default `hmac`/`hkdf` trait methods).
pub struct ToyHmac<const HL: usize>;

impl<const HL: usize> Prims for ToyHmac<HL> {
    const HL: usize = HL;
    const BL: usize = if HL > 32 { 128 } else { 64 };
    const PL: usize = 4;
    const SL: usize = 4;
    const DL: usize = 4;
    type H = toy::HState;
    #[inline(always)]
    fn h_new() -> toy::HState {
        toy::H_INIT
    }
    #[inline(always)]
    fn h_absorb(st: &mut toy::HState, d: &[u8]) {
        toy::h_absorb(st, d)
    }
    #[inline(always)]
    fn h_finish(st: &mut toy::HState, out: &mut [u8]) {
        toy::h_finish(st, HL, out)
    }
    fn encrypt(k: &[u8; 32], n: u64, ad: &[u8], pt: &[u8], out: &mut [u8]) -> usize {
        toy::aead_encrypt(k, n, ad, pt, out)
    }
    fn decrypt(k: &[u8; 32], n: u64, ad: &[u8], ct: &[u8], out: &mut [u8]) -> bool {
        toy::aead_decrypt_always(k, n, ad, ct, out)
    }
    fn pubkey(privk: &[u8], out: &mut [u8]) {
        toy::dh_pub(4, privk, out)
    }
    fn dh(privk: &[u8], pubk: &[u8], out: &mut [u8]) -> bool {
        toy::dh(4, 4, privk, pubk, out);
        true
    }
}
