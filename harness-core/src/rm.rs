//! Reference model: an independent transcription of the Noise Protocol Framework, revision 34
//! (sections 4.1-4.3 CipherState/SymmetricState/HKDF, 5.3 HandshakeState, 7.4-7.5 + Appendix 18.1 patterns,
//! section 9 pre-shared symmetric keys, 11.3 rekey), written from the specification text and not from snow.
//! Straight-line array code, index loops, generic over `Prims`.

use crate::prims::{Prims, MAXDH, MAXH};
use core::marker::PhantomData;

#[derive(Clone, Copy, PartialEq, Eq, Debug)]
pub enum Tok {
    E,
    S,
    EE,
    ES,
    SE,
    SS,
}
use Tok::*;

/// Pattern ids, in the order of the specification (7.4, 7.5, 18.1). The numeric order is also the order of
/// snow's `SUPPORTED_HANDSHAKE_PATTERNS`, which the harnesses use only to *select* the snow pattern of the
/// same name (the mapping is checked by name in `tables_agree_by_name`).
#[derive(Clone, Copy, PartialEq, Eq, Debug)]
#[repr(u8)]
#[allow(non_camel_case_types)]
pub enum Pat {
    N, X, K,
    NN, NK, NX, XN, XK, XX, KN, KK, KX, IN, IK, IX,
    NK1, NX1, X1N, X1K, XK1, X1K1, X1X, XX1, X1X1, K1N, K1K, KK1, K1K1, K1X, KX1, K1X1,
    I1N, I1K, IK1, I1K1, I1X, IX1, I1X1,
}

pub const ALL_PATS: [Pat; 38] = [
    Pat::N, Pat::X, Pat::K, Pat::NN, Pat::NK, Pat::NX, Pat::XN, Pat::XK, Pat::XX, Pat::KN, Pat::KK, Pat::KX,
    Pat::IN, Pat::IK, Pat::IX, Pat::NK1, Pat::NX1, Pat::X1N, Pat::X1K, Pat::XK1, Pat::X1K1, Pat::X1X,
    Pat::XX1, Pat::X1X1, Pat::K1N, Pat::K1K, Pat::KK1, Pat::K1K1, Pat::K1X, Pat::KX1, Pat::K1X1, Pat::I1N,
    Pat::I1K, Pat::IK1, Pat::I1K1, Pat::I1X, Pat::IX1, Pat::I1X1,
];

pub struct PatDef {
    /// initiator's static key is a pre-message ("-> s" before "...")
    pub pre_i: bool,
    /// responder's static key is a pre-message ("<- s" before "...")
    pub pre_r: bool,
    pub msgs: &'static [&'static [Tok]],
}

impl Pat {
    pub const fn name(self) -> &'static str {
        match self {
            Pat::N => "N", Pat::X => "X", Pat::K => "K",
            Pat::NN => "NN", Pat::NK => "NK", Pat::NX => "NX", Pat::XN => "XN", Pat::XK => "XK", Pat::XX => "XX",
            Pat::KN => "KN", Pat::KK => "KK", Pat::KX => "KX", Pat::IN => "IN", Pat::IK => "IK", Pat::IX => "IX",
            Pat::NK1 => "NK1", Pat::NX1 => "NX1", Pat::X1N => "X1N", Pat::X1K => "X1K", Pat::XK1 => "XK1",
            Pat::X1K1 => "X1K1", Pat::X1X => "X1X", Pat::XX1 => "XX1", Pat::X1X1 => "X1X1", Pat::K1N => "K1N",
            Pat::K1K => "K1K", Pat::KK1 => "KK1", Pat::K1K1 => "K1K1", Pat::K1X => "K1X", Pat::KX1 => "KX1",
            Pat::K1X1 => "K1X1", Pat::I1N => "I1N", Pat::I1K => "I1K", Pat::IK1 => "IK1", Pat::I1K1 => "I1K1",
            Pat::I1X => "I1X", Pat::IX1 => "IX1", Pat::I1X1 => "I1X1",
        }
    }

    /// The handshake patterns of the specification (rev 34), transcribed from sections 7.4, 7.5 and 18.1.
    #[rustfmt::skip]
    pub const fn def(self) -> PatDef {
        const fn d(pre_i: bool, pre_r: bool, msgs: &'static [&'static [Tok]]) -> PatDef { PatDef { pre_i, pre_r, msgs } }
        match self {
            // 7.4 one-way
            Pat::N    => d(false, true,  &[&[E, ES]]),
            Pat::K    => d(true,  true,  &[&[E, ES, SS]]),
            Pat::X    => d(false, true,  &[&[E, ES, S, SS]]),
            // 7.5 interactive, fundamental
            Pat::NN   => d(false, false, &[&[E], &[E, EE]]),
            Pat::NK   => d(false, true,  &[&[E, ES], &[E, EE]]),
            Pat::NX   => d(false, false, &[&[E], &[E, EE, S, ES]]),
            Pat::XN   => d(false, false, &[&[E], &[E, EE], &[S, SE]]),
            Pat::XK   => d(false, true,  &[&[E, ES], &[E, EE], &[S, SE]]),
            Pat::XX   => d(false, false, &[&[E], &[E, EE, S, ES], &[S, SE]]),
            Pat::KN   => d(true,  false, &[&[E], &[E, EE, SE]]),
            Pat::KK   => d(true,  true,  &[&[E, ES, SS], &[E, EE, SE]]),
            Pat::KX   => d(true,  false, &[&[E], &[E, EE, SE, S, ES]]),
            Pat::IN   => d(false, false, &[&[E, S], &[E, EE, SE]]),
            Pat::IK   => d(false, true,  &[&[E, ES, S, SS], &[E, EE, SE]]),
            Pat::IX   => d(false, false, &[&[E, S], &[E, EE, SE, S, ES]]),
            // 18.1 deferred
            Pat::NK1  => d(false, true,  &[&[E], &[E, EE, ES]]),
            Pat::NX1  => d(false, false, &[&[E], &[E, EE, S], &[ES]]),
            Pat::X1N  => d(false, false, &[&[E], &[E, EE], &[S], &[SE]]),
            Pat::X1K  => d(false, true,  &[&[E, ES], &[E, EE], &[S], &[SE]]),
            Pat::XK1  => d(false, true,  &[&[E], &[E, EE, ES], &[S, SE]]),
            Pat::X1K1 => d(false, true,  &[&[E], &[E, EE, ES], &[S], &[SE]]),
            Pat::X1X  => d(false, false, &[&[E], &[E, EE, S, ES], &[S], &[SE]]),
            Pat::XX1  => d(false, false, &[&[E], &[E, EE, S], &[ES, S, SE]]),
            Pat::X1X1 => d(false, false, &[&[E], &[E, EE, S], &[ES, S], &[SE]]),
            Pat::K1N  => d(true,  false, &[&[E], &[E, EE], &[SE]]),
            Pat::K1K  => d(true,  true,  &[&[E, ES], &[E, EE], &[SE]]),
            Pat::KK1  => d(true,  true,  &[&[E], &[E, EE, SE, ES]]),
            Pat::K1K1 => d(true,  true,  &[&[E], &[E, EE, ES], &[SE]]),
            Pat::K1X  => d(true,  false, &[&[E], &[E, EE, S, ES], &[SE]]),
            Pat::KX1  => d(true,  false, &[&[E], &[E, EE, SE, S], &[ES]]),
            Pat::K1X1 => d(true,  false, &[&[E], &[E, EE, S], &[SE, ES]]),
            Pat::I1N  => d(false, false, &[&[E, S], &[E, EE], &[SE]]),
            Pat::I1K  => d(false, true,  &[&[E, ES, S], &[E, EE], &[SE]]),
            Pat::IK1  => d(false, true,  &[&[E, S], &[E, EE, SE, ES]]),
            Pat::I1K1 => d(false, true,  &[&[E, S], &[E, EE, ES], &[SE]]),
            Pat::I1X  => d(false, false, &[&[E, S], &[E, EE, S, ES], &[SE]]),
            Pat::IX1  => d(false, false, &[&[E, S], &[E, EE, SE, S], &[ES]]),
            Pat::I1X1 => d(false, false, &[&[E, S], &[E, EE, S], &[SE, ES]]),
        }
    }

    pub const fn nmsgs(self) -> usize {
        self.def().msgs.len()
    }

    pub const fn is_oneway(self) -> bool {
        matches!(self, Pat::N | Pat::K | Pat::X)
    }

    /// Derived from the table: does `initiator`-role need its own static key (an "s" pre-message of its own
    /// side, an "s" token in a message it sends, or any DH token using its static key)?
    pub const fn needs_local_static(self, initiator: bool) -> bool {
        let d = self.def();
        if (initiator && d.pre_i) || (!initiator && d.pre_r) {
            return true;
        }
        let mut m = 0;
        while m < d.msgs.len() {
            let sender_is_initiator = m % 2 == 0;
            let toks = d.msgs[m];
            let mut t = 0;
            while t < toks.len() {
                match toks[t] {
                    S => {
                        if sender_is_initiator == initiator {
                            return true;
                        }
                    },
                    SS => return true,
                    // "se": initiator's static; "es": responder's static
                    SE => {
                        if initiator {
                            return true;
                        }
                    },
                    ES => {
                        if !initiator {
                            return true;
                        }
                    },
                    _ => {},
                }
                t += 1;
            }
            m += 1;
        }
        false
    }

    /// Derived from the table: is the peer's static key pre-shared (a pre-message of the other side)?
    pub const fn needs_remote_static(self, initiator: bool) -> bool {
        let d = self.def();
        if initiator {
            d.pre_r
        } else {
            d.pre_i
        }
    }

    /// Derived from the table: message index (0-based) whose successful read gives the `initiator`-role party
    /// the peer's static key; None if it is never transmitted to that party.
    pub const fn remote_static_transmitted_at(self, initiator: bool) -> Option<usize> {
        let d = self.def();
        let mut m = 0;
        while m < d.msgs.len() {
            let sender_is_initiator = m % 2 == 0;
            if sender_is_initiator != initiator {
                let toks = d.msgs[m];
                let mut t = 0;
                while t < toks.len() {
                    if matches!(toks[t], S) {
                        return Some(m);
                    }
                    t += 1;
                }
            }
            m += 1;
        }
        None
    }
}

#[derive(Clone, Copy, PartialEq, Eq, Debug)]
pub enum RmErr {
    NotTurnToWrite,
    NotTurnToRead,
    Finished,
    NotFinished,
    MissingPsk,
    /// message shorter than the fixed fields / longer than 65535 / output does not fit
    Input,
    Decrypt,
    Exhausted,
    OneWay,
    Dh,
}

/// SymmetricState + its CipherState (spec 5.1, 5.2).
#[derive(Clone, Copy)]
pub struct Sym {
    pub h: [u8; MAXH],
    pub ck: [u8; MAXH],
    pub k: [u8; 32],
    pub n: u64,
    pub has_k: bool,
}

pub const TAGLEN: usize = 16;
pub const MAXMSG: usize = 65535;

pub struct SymOps<P: Prims>(PhantomData<P>);

impl<P: Prims> SymOps<P> {
    /// InitializeSymmetric(protocol_name)
    pub fn initialize(name: &[u8]) -> Sym {
        let mut h = [0u8; MAXH];
        if name.len() <= P::HL {
            let mut i = 0;
            while i < name.len() {
                h[i] = name[i];
                i += 1;
            }
        } else {
            let mut st = P::h_new();
            P::h_absorb(&mut st, name);
            P::h_finish(&mut st, &mut h);
        }
        Sym { h, ck: h, k: [0u8; 32], n: 0, has_k: false }
    }

    pub fn mix_hash(s: &mut Sym, data: &[u8]) {
        let mut out = [0u8; MAXH];
        let mut st = P::h_new();
        P::h_absorb(&mut st, &s.h[..P::HL]);
        P::h_absorb(&mut st, data);
        P::h_finish(&mut st, &mut out);
        s.h = out;
    }

    fn set_key_from(s: &mut Sym, temp_k: &[u8; MAXH]) {
        // "If HASHLEN is 64, then truncates temp_k to 32 bytes." (HL < 32 only occurs with toy shapes: the
        // remaining bytes are zero, which is also what snow's zero-initialised HKDF output buffers give.)
        let mut i = 0;
        while i < 32 {
            s.k[i] = temp_k[i];
            i += 1;
        }
        s.n = 0;
        s.has_k = true;
    }

    pub fn mix_key(s: &mut Sym, ikm: &[u8]) {
        let mut o1 = [0u8; MAXH];
        let mut o2 = [0u8; MAXH];
        P::hkdf(&s.ck[..P::HL], ikm, 2, &mut o1, &mut o2, &mut []);
        s.ck = o1;
        Self::set_key_from(s, &o2);
    }

    pub fn mix_key_and_hash(s: &mut Sym, ikm: &[u8]) {
        let mut o1 = [0u8; MAXH];
        let mut o2 = [0u8; MAXH];
        let mut o3 = [0u8; MAXH];
        P::hkdf(&s.ck[..P::HL], ikm, 3, &mut o1, &mut o2, &mut o3);
        s.ck = o1;
        Self::mix_hash(s, &o2[..P::HL]);
        Self::set_key_from(s, &o3);
    }

    /// EncryptAndHash(plaintext) -> number of bytes appended to `out`. Straight-line (no early return): the
    /// returned length is `pt.len()` (+16 with a key) computed without passing through an enum, so that CBMC
    /// keeps it constant. `*ok` is cleared if the nonce is exhausted.
    pub fn encrypt_and_hash(s: &mut Sym, pt: &[u8], out: &mut [u8], ok: &mut bool) -> usize {
        let n = if s.has_k {
            if s.n == u64::MAX {
                *ok = false;
            }
            P::encrypt(&s.k, s.n, &s.h[..P::HL], pt, out);
            s.n = s.n.wrapping_add(1);
            pt.len() + TAGLEN
        } else {
            let mut i = 0;
            while i < pt.len() {
                out[i] = pt[i];
                i += 1;
            }
            pt.len()
        };
        Self::mix_hash(s, &out[..n]);
        n
    }

    /// DecryptAndHash(ciphertext) -> plaintext length; `*ok` is cleared on authentication failure (the state is
    /// still advanced: callers that model "a failed read changes nothing" keep a copy and restore it).
    /// Requires ct.len() >= 16 when a key is set.
    pub fn decrypt_and_hash(s: &mut Sym, ct: &[u8], out: &mut [u8], ok: &mut bool) -> usize {
        let n = if s.has_k {
            if s.n == u64::MAX {
                *ok = false;
            }
            if !P::decrypt(&s.k, s.n, &s.h[..P::HL], ct, out) {
                *ok = false;
            }
            s.n = s.n.wrapping_add(1);
            ct.len() - TAGLEN
        } else {
            let mut i = 0;
            while i < ct.len() {
                out[i] = ct[i];
                i += 1;
            }
            ct.len()
        };
        Self::mix_hash(s, ct);
        n
    }

    /// Split() -> (k1, k2)
    pub fn split(s: &Sym) -> ([u8; 32], [u8; 32]) {
        let mut o1 = [0u8; MAXH];
        let mut o2 = [0u8; MAXH];
        P::hkdf(&s.ck[..P::HL], &[], 2, &mut o1, &mut o2, &mut []);
        let mut k1 = [0u8; 32];
        let mut k2 = [0u8; 32];
        let mut i = 0;
        while i < 32 {
            k1[i] = o1[i];
            k2[i] = o2[i];
            i += 1;
        }
        (k1, k2)
    }
}

/// REKEY(k): first 32 bytes of ENCRYPT(k, 2^64-1, "", zeros[32])  (spec 4.2)
pub fn rekey<P: Prims>(k: &[u8; 32]) -> [u8; 32] {
    let mut out = [0u8; 48];
    P::encrypt(k, u64::MAX, &[], &[0u8; 32], &mut out);
    let mut nk = [0u8; 32];
    let mut i = 0;
    while i < 32 {
        nk[i] = out[i];
        i += 1;
    }
    nk
}

/// HandshakeState (spec 5.3) with the psk extension of section 9.
#[derive(Clone, Copy)]
pub struct Hs {
    pub sym: Sym,
    pub pat: Pat,
    /// bit N set <=> modifier pskN present
    pub psk_mask: u16,
    pub psks: [[u8; 32]; 10],
    /// bit N set <=> PSK N has been supplied
    pub psk_set: u16,
    pub initiator: bool,
    pub s_priv: [u8; MAXDH],
    pub s_pub: [u8; MAXDH],
    pub has_s: bool,
    pub e_priv: [u8; MAXDH],
    pub e_pub: [u8; MAXDH],
    pub has_e: bool,
    pub rs: [u8; MAXDH],
    pub has_rs: bool,
    pub re: [u8; MAXDH],
    pub has_re: bool,
    /// number of handshake messages processed
    pub pos: usize,
    /// after the last message
    pub k1: [u8; 32],
    pub k2: [u8; 32],
}

pub struct HsOps<P: Prims>(PhantomData<P>);

impl<P: Prims> HsOps<P> {
    /// Initialize(handshake_pattern, initiator, prologue, s, e, rs, re); pre-message public keys are hashed
    /// initiator's first, then responder's.
    #[allow(clippy::too_many_arguments)]
    pub fn initialize(
        pat: Pat,
        psk_mask: u16,
        initiator: bool,
        name: &[u8],
        prologue: &[u8],
        s_priv: Option<&[u8]>,
        rs: Option<&[u8]>,
        psks: [[u8; 32]; 10],
        psk_set: u16,
    ) -> Hs {
        let mut sym = SymOps::<P>::initialize(name);
        SymOps::<P>::mix_hash(&mut sym, prologue);
        let mut hs = Hs {
            sym,
            pat,
            psk_mask,
            psks,
            psk_set,
            initiator,
            s_priv: [0u8; MAXDH],
            s_pub: [0u8; MAXDH],
            has_s: false,
            e_priv: [0u8; MAXDH],
            e_pub: [0u8; MAXDH],
            has_e: false,
            rs: [0u8; MAXDH],
            has_rs: false,
            re: [0u8; MAXDH],
            has_re: false,
            pos: 0,
            k1: [0u8; 32],
            k2: [0u8; 32],
        };
        if let Some(sp) = s_priv {
            let mut i = 0;
            while i < P::SL {
                hs.s_priv[i] = sp[i];
                i += 1;
            }
            P::pubkey(&hs.s_priv[..P::SL], &mut hs.s_pub);
            hs.has_s = true;
        }
        if let Some(r) = rs {
            let mut i = 0;
            while i < P::PL {
                hs.rs[i] = r[i];
                i += 1;
            }
            hs.has_rs = true;
        }
        let d = pat.def();
        if d.pre_i {
            if initiator {
                SymOps::<P>::mix_hash(&mut hs.sym, &hs.s_pub[..P::PL]);
            } else {
                SymOps::<P>::mix_hash(&mut hs.sym, &hs.rs[..P::PL]);
            }
        }
        if d.pre_r {
            if initiator {
                SymOps::<P>::mix_hash(&mut hs.sym, &hs.rs[..P::PL]);
            } else {
                SymOps::<P>::mix_hash(&mut hs.sym, &hs.s_pub[..P::PL]);
            }
        }
        hs
    }

    pub fn psk_mode(hs: &Hs) -> bool {
        hs.psk_mask != 0
    }

    pub fn my_turn(hs: &Hs) -> bool {
        (hs.pos % 2 == 0) == hs.initiator
    }

    pub fn finished(hs: &Hs) -> bool {
        hs.pos >= hs.pat.nmsgs()
    }

    fn do_dh(hs: &Hs, t: Tok, out: &mut [u8]) -> bool {
        // ee: DH(e, re); es: DH(e, rs) if initiator else DH(s, re); se: DH(s, re) if initiator else DH(e, rs);
        // ss: DH(s, rs)
        let (use_e, use_re) = match (t, hs.initiator) {
            (EE, _) => (true, true),
            (SS, _) => (false, false),
            (ES, true) | (SE, false) => (true, false),
            (ES, false) | (SE, true) => (false, true),
            _ => (true, true),
        };
        let privk = if use_e { &hs.e_priv[..P::SL] } else { &hs.s_priv[..P::SL] };
        let pubk = if use_re { &hs.re[..P::PL] } else { &hs.rs[..P::PL] };
        P::dh(privk, pubk, out)
    }

    fn psk_token(hs: &mut Hs, n: usize) {
        let psk = hs.psks[n];
        SymOps::<P>::mix_key_and_hash(&mut hs.sym, &psk);
    }

    /// Preconditions of WriteMessage in the order snow documents them; None = the call is legitimate.
    pub fn precheck_write(hs: &Hs) -> Option<RmErr> {
        if !Self::my_turn(hs) {
            return Some(RmErr::NotTurnToWrite);
        }
        if Self::finished(hs) {
            return Some(RmErr::Finished);
        }
        Self::precheck_psk(hs)
    }

    /// A PSK that the current message needs but that was never supplied.
    pub fn precheck_psk(hs: &Hs) -> Option<RmErr> {
        let m = hs.pos;
        if m == 0 && (hs.psk_mask & 1) != 0 && (hs.psk_set & 1) == 0 {
            return Some(RmErr::MissingPsk);
        }
        if (hs.psk_mask & (1 << (m + 1))) != 0 && (hs.psk_set & (1 << (m + 1))) == 0 {
            return Some(RmErr::MissingPsk);
        }
        None
    }

    /// Preconditions of ReadMessage (length limit first, as snow documents); None = legitimate so far.
    pub fn precheck_read(hs: &Hs, msg_len: usize) -> Option<RmErr> {
        if msg_len > MAXMSG {
            return Some(RmErr::Input);
        }
        if Self::my_turn(hs) {
            return Some(RmErr::NotTurnToRead);
        }
        if Self::finished(hs) {
            return Some(RmErr::Finished);
        }
        None
    }

    /// WriteMessage(payload, message_buffer) -> message length. Straight-line: requires `precheck_write` == None
    /// and a buffer that fits. `e_priv` is the ephemeral private key to use if the message pattern contains "e"
    /// (the specification's GENERATE_KEYPAIR()).
    pub fn write(hs: &mut Hs, e_priv: &[u8], payload: &[u8], out: &mut [u8], ok: &mut bool) -> usize {
        let m = hs.pos;
        let toks = hs.pat.def().msgs[m];
        let mut idx = 0usize;
        if m == 0 && (hs.psk_mask & 1) != 0 {
            Self::psk_token(hs, 0);
        }
        let mut t = 0;
        while t < toks.len() {
            match toks[t] {
                E => {
                    let mut i = 0;
                    while i < P::SL {
                        hs.e_priv[i] = e_priv[i];
                        i += 1;
                    }
                    let ep = hs.e_priv;
                    P::pubkey(&ep[..P::SL], &mut hs.e_pub);
                    hs.has_e = true;
                    let mut i = 0;
                    while i < P::PL {
                        out[idx + i] = hs.e_pub[i];
                        i += 1;
                    }
                    idx += P::PL;
                    let epub = hs.e_pub;
                    SymOps::<P>::mix_hash(&mut hs.sym, &epub[..P::PL]);
                    if Self::psk_mode(hs) {
                        SymOps::<P>::mix_key(&mut hs.sym, &epub[..P::PL]);
                    }
                },
                S => {
                    let spub = hs.s_pub;
                    idx += SymOps::<P>::encrypt_and_hash(&mut hs.sym, &spub[..P::PL], &mut out[idx..], ok);
                },
                tok => {
                    let mut dh = [0u8; MAXDH];
                    if !Self::do_dh(hs, tok, &mut dh) {
                        *ok = false;
                    }
                    SymOps::<P>::mix_key(&mut hs.sym, &dh[..P::DL]);
                },
            }
            t += 1;
        }
        if (hs.psk_mask & (1 << (m + 1))) != 0 {
            Self::psk_token(hs, m + 1);
        }
        idx += SymOps::<P>::encrypt_and_hash(&mut hs.sym, payload, &mut out[idx..], ok);
        hs.pos += 1;
        if hs.pos == hs.pat.nmsgs() {
            let (k1, k2) = SymOps::<P>::split(&hs.sym);
            hs.k1 = k1;
            hs.k2 = k2;
        }
        idx
    }

    /// ReadMessage(message, payload_buffer) -> payload length. Straight-line: requires `precheck_read` == None,
    /// msg.len() >= the fixed fields of this message (`overhead`), and a payload buffer that fits. `*ok` is
    /// cleared when any DecryptAndHash fails (the state is advanced regardless).
    pub fn read(hs: &mut Hs, msg: &[u8], payload: &mut [u8], ok: &mut bool) -> usize {
        let m = hs.pos;
        let toks = hs.pat.def().msgs[m];
        let mut idx = 0usize;
        if m == 0 && (hs.psk_mask & 1) != 0 {
            Self::psk_token(hs, 0);
        }
        let mut t = 0;
        while t < toks.len() {
            match toks[t] {
                E => {
                    let mut i = 0;
                    while i < P::PL {
                        hs.re[i] = msg[idx + i];
                        i += 1;
                    }
                    idx += P::PL;
                    hs.has_re = true;
                    let re = hs.re;
                    SymOps::<P>::mix_hash(&mut hs.sym, &re[..P::PL]);
                    if Self::psk_mode(hs) {
                        SymOps::<P>::mix_key(&mut hs.sym, &re[..P::PL]);
                    }
                },
                S => {
                    let flen = if hs.sym.has_k { P::PL + TAGLEN } else { P::PL };
                    let mut rs = [0u8; MAXDH];
                    SymOps::<P>::decrypt_and_hash(&mut hs.sym, &msg[idx..idx + flen], &mut rs, ok);
                    hs.rs = rs;
                    hs.has_rs = true;
                    idx += flen;
                },
                tok => {
                    let mut dh = [0u8; MAXDH];
                    if !Self::do_dh(hs, tok, &mut dh) {
                        *ok = false;
                    }
                    SymOps::<P>::mix_key(&mut hs.sym, &dh[..P::DL]);
                },
            }
            t += 1;
        }
        if (hs.psk_mask & (1 << (m + 1))) != 0 {
            Self::psk_token(hs, m + 1);
        }
        let n = SymOps::<P>::decrypt_and_hash(&mut hs.sym, &msg[idx..], payload, ok);
        hs.pos += 1;
        if hs.pos == hs.pat.nmsgs() {
            let (k1, k2) = SymOps::<P>::split(&hs.sym);
            hs.k1 = k1;
            hs.k2 = k2;
        }
        n
    }

    /// Length of handshake message `m` (0-based) with a `plen`-byte payload, from the token table alone:
    /// public keys, a 16-byte tag per encrypted field, payload. `has_k` evolves as the spec says (a key exists
    /// after the first DH or psk token, and after "e" in psk mode).
    pub fn msg_len(pat: Pat, psk_mask: u16, m: usize, plen: usize) -> usize {
        let (fixed, _) = Self::overhead(pat, psk_mask, m);
        fixed + plen
    }

    /// Offset of the first encrypted field of message m (None if the message has none): every byte from there
    /// on belongs to an encrypted field or its tag.
    pub fn first_encrypted_offset(pat: Pat, psk_mask: u16, m: usize) -> Option<usize> {
        let d = pat.def();
        let psk = psk_mask != 0;
        let mut has_k = false;
        let mut mi = 0;
        while mi <= m {
            let mut len = 0;
            if mi == 0 && (psk_mask & 1) != 0 {
                has_k = true;
            }
            let toks = d.msgs[mi];
            let mut t = 0;
            while t < toks.len() {
                match toks[t] {
                    E => {
                        len += P::PL;
                        if psk {
                            has_k = true;
                        }
                    },
                    S => {
                        if has_k && mi == m {
                            return Some(len);
                        }
                        len += P::PL + if has_k { TAGLEN } else { 0 };
                    },
                    _ => has_k = true,
                }
                t += 1;
            }
            if (psk_mask & (1 << (mi + 1))) != 0 {
                has_k = true;
            }
            if mi == m {
                return if has_k { Some(len) } else { None };
            }
            mi += 1;
        }
        None
    }

    /// (fixed overhead of message m including the payload tag, whether the payload is encrypted)
    pub fn overhead(pat: Pat, psk_mask: u16, m: usize) -> (usize, bool) {
        let d = pat.def();
        let psk = psk_mask != 0;
        let mut has_k = false;
        let mut len = 0;
        let mut mi = 0;
        while mi <= m {
            len = 0;
            if mi == 0 && (psk_mask & 1) != 0 {
                has_k = true;
            }
            let toks = d.msgs[mi];
            let mut t = 0;
            while t < toks.len() {
                match toks[t] {
                    E => {
                        len += P::PL;
                        if psk {
                            has_k = true;
                        }
                    },
                    S => {
                        len += P::PL + if has_k { TAGLEN } else { 0 };
                    },
                    _ => has_k = true,
                }
                t += 1;
            }
            if (psk_mask & (1 << (mi + 1))) != 0 {
                has_k = true;
            }
            if has_k {
                len += TAGLEN;
            }
            mi += 1;
        }
        (len, has_k)
    }
}

/// Transport phase (spec 5.1 + 7.4 one-way rule): initiator sends with c1, responder with c2.
#[derive(Clone, Copy)]
pub struct Tr {
    pub k1: [u8; 32],
    pub k2: [u8; 32],
    pub n1: u64,
    pub n2: u64,
    pub initiator: bool,
    pub oneway: bool,
}

pub struct TrOps<P: Prims>(PhantomData<P>);

impl<P: Prims> TrOps<P> {
    /// Requires the handshake to be finished.
    pub fn from_hs(hs: &Hs) -> Tr {
        Tr { k1: hs.k1, k2: hs.k2, n1: 0, n2: 0, initiator: hs.initiator, oneway: hs.pat.is_oneway() }
    }

    /// Preconditions of a transport write in snow's documented order.
    pub fn precheck_write(tr: &Tr, nonce: u64, plen: usize, cap: usize) -> Option<RmErr> {
        if !tr.initiator && tr.oneway {
            return Some(RmErr::OneWay);
        }
        if plen + TAGLEN > MAXMSG || plen + TAGLEN > cap {
            return Some(RmErr::Input);
        }
        if nonce == u64::MAX {
            return Some(RmErr::Exhausted);
        }
        None
    }

    /// Every reason for which a transport write may be refused (the property does not fix which one is reported
    /// when several apply): (one-way violation, does not fit, nonce exhausted).
    pub fn write_refusals(tr: &Tr, nonce: u64, plen: usize, cap: usize) -> (bool, bool, bool) {
        (!tr.initiator && tr.oneway, plen + TAGLEN > MAXMSG || plen + TAGLEN > cap, nonce == u64::MAX)
    }

    /// (one-way violation, longer than 65535, shorter than a tag or payload buffer too small, nonce exhausted)
    pub fn read_refusals(tr: &Tr, nonce: u64, mlen: usize, cap: usize) -> (bool, bool, bool, bool) {
        (tr.initiator && tr.oneway, mlen > MAXMSG, mlen < TAGLEN || cap < mlen - TAGLEN, nonce == u64::MAX)
    }

    pub fn precheck_read(tr: &Tr, nonce: u64, mlen: usize, cap: usize) -> Option<RmErr> {
        if mlen > MAXMSG {
            return Some(RmErr::Input);
        }
        if tr.initiator && tr.oneway {
            return Some(RmErr::OneWay);
        }
        if mlen < TAGLEN || cap < mlen - TAGLEN {
            return Some(RmErr::Decrypt);
        }
        if nonce == u64::MAX {
            return Some(RmErr::Exhausted);
        }
        None
    }

    /// ENCRYPT(k, n, "", payload) under the sender's key; nonce given explicitly. Requires precheck == None.
    pub fn write_at(tr: &Tr, nonce: u64, payload: &[u8], out: &mut [u8]) -> usize {
        let k = if tr.initiator { &tr.k1 } else { &tr.k2 };
        P::encrypt(k, nonce, &[], payload, out);
        payload.len() + TAGLEN
    }

    /// DECRYPT(k, n, "", msg) under the peer's key. Requires precheck == None. Returns (len, authentic).
    pub fn read_at(tr: &Tr, nonce: u64, msg: &[u8], out: &mut [u8]) -> (usize, bool) {
        let k = if tr.initiator { &tr.k2 } else { &tr.k1 };
        let ok = P::decrypt(k, nonce, &[], msg, out);
        (msg.len() - TAGLEN, ok)
    }
}
