//! Reference recogniser for the Noise protocol-name grammar (spec section 8 + snow's documented choices),
//! byte-level, written from the specification text:
//!   name      := "Noise" "_" handshake "_" dh "_" cipher "_" hash
//!   handshake := pattern [ modifier { "+" modifier } ]
//!   modifier  := "psk" digits | "fallback"        (digits: decimal value 0..=255; no duplicates)
//! `dh`, `cipher`, `hash` are the names snow is built with (25519, 448; ChaChaPoly, AESGCM; SHA256, SHA512,
//! BLAKE2s, BLAKE2b; P256 / XChaChaPoly when those features are on).
use crate::rm::{Pat, ALL_PATS};

fn eq(a: &[u8], b: &[u8]) -> bool {
    if a.len() != b.len() {
        return false;
    }
    let mut i = 0;
    while i < a.len() {
        if a[i] != b[i] {
            return false;
        }
        i += 1;
    }
    true
}

fn starts_with(a: &[u8], p: &[u8]) -> bool {
    a.len() >= p.len() && eq(&a[..p.len()], p)
}

/// Longest pattern name that is a prefix of `s`: (pattern, its length).
pub fn pattern_prefix(s: &[u8]) -> Option<(Pat, usize)> {
    let mut best: Option<(Pat, usize)> = None;
    // 38 names, walked as 7 x 6 so that verification harnesses need no unwinding bound of 39
    let mut c = 0;
    while c < 7 {
        let mut j = 0;
        while j < 6 {
            let i = c * 6 + j;
            if i < ALL_PATS.len() {
                let n = ALL_PATS[i].name().as_bytes();
                if starts_with(s, n) {
                    match best {
                        Some((_, l)) if l >= n.len() => {},
                        _ => best = Some((ALL_PATS[i], n.len())),
                    }
                }
            }
            j += 1;
        }
        c += 1;
    }
    best
}

#[derive(Clone, Copy, PartialEq, Eq, Debug)]
pub enum Modifier {
    Psk(u8),
    Fallback,
}

/// One modifier token (no '+' inside).
pub fn modifier(seg: &[u8]) -> Option<Modifier> {
    if starts_with(seg, b"psk") {
        let d = &seg[3..];
        if d.is_empty() {
            return None;
        }
        let mut v: u32 = 0;
        let mut i = 0;
        while i < d.len() {
            if d[i] < b'0' || d[i] > b'9' {
                return None;
            }
            v = v * 10 + (d[i] - b'0') as u32;
            if v > 255 {
                return None;
            }
            i += 1;
        }
        Some(Modifier::Psk(v as u8))
    } else if eq(seg, b"fallback") {
        Some(Modifier::Fallback)
    } else {
        None
    }
}

pub const MAXMODS: usize = 8;

/// Modifier list: empty, or '+'-separated modifiers without duplicates. Returns the modifiers in order.
pub fn modifiers(s: &[u8]) -> Option<([Option<Modifier>; MAXMODS], usize)> {
    let mut out = [None; MAXMODS];
    let mut n = 0;
    if s.is_empty() {
        return Some((out, 0));
    }
    let mut start = 0;
    let mut i = 0;
    while i <= s.len() {
        if i == s.len() || s[i] == b'+' {
            let m = modifier(&s[start..i])?;
            let mut j = 0;
            while j < n {
                if out[j] == Some(m) {
                    return None;
                }
                j += 1;
            }
            if n >= MAXMODS {
                return None;
            }
            out[n] = Some(m);
            n += 1;
            start = i + 1;
        }
        i += 1;
    }
    Some((out, n))
}

/// The handshake field: longest pattern prefix, then a modifier list.
pub fn handshake(s: &[u8]) -> Option<(Pat, [Option<Modifier>; MAXMODS], usize)> {
    let (p, l) = pattern_prefix(s)?;
    let (m, n) = modifiers(&s[l..])?;
    Some((p, m, n))
}

pub fn is_base(s: &[u8]) -> bool {
    eq(s, b"Noise")
}
/// 0 = 25519, 1 = 448
pub fn dh(s: &[u8]) -> Option<u8> {
    if eq(s, b"25519") {
        Some(0)
    } else if eq(s, b"448") {
        Some(1)
    } else {
        None
    }
}
/// 0 = ChaChaPoly, 1 = AESGCM
pub fn cipher(s: &[u8]) -> Option<u8> {
    if eq(s, b"ChaChaPoly") {
        Some(0)
    } else if eq(s, b"AESGCM") {
        Some(1)
    } else {
        None
    }
}
/// 0 SHA256, 1 SHA512, 2 BLAKE2s, 3 BLAKE2b
pub fn hash(s: &[u8]) -> Option<u8> {
    if eq(s, b"SHA256") {
        Some(0)
    } else if eq(s, b"SHA512") {
        Some(1)
    } else if eq(s, b"BLAKE2s") {
        Some(2)
    } else if eq(s, b"BLAKE2b") {
        Some(3)
    } else {
        None
    }
}

/// Whole name: exactly five '_'-separated fields, each accepted by its recogniser.
pub fn name_ok(s: &[u8]) -> bool {
    let mut fields: [(usize, usize); 5] = [(0, 0); 5];
    let mut nf = 0;
    let mut start = 0;
    let mut i = 0;
    while i <= s.len() {
        if i == s.len() || s[i] == b'_' {
            if nf >= 5 {
                return false;
            }
            fields[nf] = (start, i);
            nf += 1;
            start = i + 1;
        }
        i += 1;
    }
    if nf != 5 {
        return false;
    }
    let f = |k: usize| &s[fields[k].0..fields[k].1];
    is_base(f(0)) && handshake(f(1)).is_some() && dh(f(2)).is_some() && cipher(f(3)).is_some() && hash(f(4)).is_some()
}
