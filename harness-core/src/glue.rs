//! Glue shared by Kani harnesses and native replays: building snow objects from reference-model states
//! through the `verif-hooks` literal constructors, and comparing snapshots.
#![allow(static_mut_refs)]

use crate::prims::{Prims, Toy, MAXDH};
use crate::rm::{Hs, Pat};
use crate::stubs::*;
use snow::params::{
    BaseChoice, CipherChoice, DHChoice, HandshakeChoice, HandshakeModifier, HandshakeModifierList,
    HashChoice, NoiseParams, SUPPORTED_HANDSHAKE_PATTERNS,
};
use snow::verif::{self, HandshakeParts, Snapshot};
use snow::types::{Cipher, Dh, Hash, Random};
use snow::HandshakeState;

pub fn snow_pat(p: Pat) -> snow::params::HandshakePattern {
    SUPPORTED_HANDSHAKE_PATTERNS[p as usize]
}

/// modifiers in ascending psk order
pub fn mods_of(psk_mask: u16) -> Vec<HandshakeModifier> {
    let mut v = Vec::new();
    let mut n = 0u8;
    while n < 10 {
        if psk_mask & (1 << n) != 0 {
            v.push(HandshakeModifier::Psk(n));
        }
        n += 1;
    }
    v
}

pub fn mk_params(name: &str, pat: Pat, psk_mask: u16) -> NoiseParams {
    NoiseParams::new(
        name.to_owned(),
        BaseChoice::Noise,
        HandshakeChoice { pattern: snow_pat(pat), modifiers: HandshakeModifierList { list: mods_of(psk_mask) } },
        DHChoice::Curve25519,
        CipherChoice::ChaChaPoly,
        HashChoice::SHA256,
    )
}

pub fn psk_opts(hs: &Hs) -> [Option<[u8; 32]>; 10] {
    let mut o = [None; 10];
    let mut i = 0;
    while i < 10 {
        if hs.psk_set & (1 << i) != 0 {
            o[i] = Some(hs.psks[i]);
        }
        i += 1;
    }
    o
}

/// Stub ids used by an endpoint: hash, handshake cipher, c_i, c_r, s, e.
#[derive(Clone, Copy)]
pub struct Ids {
    pub h: usize,
    pub c0: usize,
    pub c1: usize,
    pub c2: usize,
    pub s: usize,
    pub e: usize,
}
pub const EP_A: Ids = Ids { h: 0, c0: 0, c1: 1, c2: 2, s: 0, e: 1 };
pub const EP_B: Ids = Ids { h: 1, c0: 3, c1: 4, c2: 5, s: 2, e: 3 };

fn dh_arr<const PL: usize>(a: &[u8; MAXDH]) -> [u8; verif::MAXDHLEN] {
    let mut o = [0u8; verif::MAXDHLEN];
    let mut i = 0;
    while i < PL {
        o[i] = a[i];
        i += 1;
    }
    o
}

/// Primitive objects of one endpoint.
pub struct Objs {
    pub rng: Box<dyn Random>,
    pub cipher: Box<dyn Cipher>,
    pub hasher: Box<dyn Hash>,
    pub cipher_i: Box<dyn Cipher>,
    pub cipher_r: Box<dyn Cipher>,
    pub s: Box<dyn Dh>,
    pub e: Box<dyn Dh>,
}

/// Build a real snow `HandshakeState` that is in the reference-model state `hs`, over the given primitive
/// objects (literal-constructor hook). The caller has already placed keys in the stubs' statics.
pub fn snow_from_rm_with<const PL: usize>(hs: &Hs, name: &str, fixed_ephemeral: bool, o: Objs) -> HandshakeState {
    let parts = HandshakeParts {
        rng: o.rng,
        cipher: o.cipher,
        cipher_key: hs.sym.k,
        cipher_nonce: hs.sym.n,
        cipher_has_key: hs.sym.has_k,
        hasher: o.hasher,
        h: hs.sym.h,
        ck: hs.sym.ck,
        has_key: hs.sym.has_k,
        cipher_i: o.cipher_i,
        cipher_r: o.cipher_r,
        split_done: hs.pos >= hs.pat.nmsgs(),
        s: o.s,
        s_on: hs.has_s,
        e: o.e,
        e_on: hs.has_e,
        fixed_ephemeral,
        rs: dh_arr::<PL>(&hs.rs),
        rs_on: hs.has_rs,
        re: dh_arr::<PL>(&hs.re),
        re_on: hs.has_re,
        initiator: hs.initiator,
        params: mk_params(name, hs.pat, hs.psk_mask),
        psks: psk_opts(hs),
        my_turn: (hs.pos % 2 == 0) == hs.initiator,
        pattern_position: hs.pos,
    };
    verif::handshake_from_parts(parts).unwrap()
}

fn load_dh<const PL: usize>(hs: &Hs, ids: Ids) {
    unsafe {
        let mut i = 0;
        while i < PL {
            DPRIV[ids.s][i] = hs.s_priv[i];
            DPUB[ids.s][i] = hs.s_pub[i];
            DPRIV[ids.e][i] = hs.e_priv[i];
            DPUB[ids.e][i] = hs.e_pub[i];
            i += 1;
        }
    }
}

/// Free toy stubs, endpoint A ids.
pub fn snow_from_rm_a<const HL: usize, const PL: usize, const DL: usize>(
    hs: &Hs,
    name: &str,
    fixed_ephemeral: bool,
) -> HandshakeState {
    unsafe {
        CKEY[0] = hs.sym.k;
    }
    load_dh::<PL>(hs, EP_A);
    snow_from_rm_with::<PL>(
        hs,
        name,
        fixed_ephemeral,
        Objs {
            rng: Box::new(SRng),
            cipher: Box::new(SCipher::<0>),
            hasher: Box::new(SHash::<HL, 0>),
            cipher_i: Box::new(SCipher::<1>),
            cipher_r: Box::new(SCipher::<2>),
            s: Box::new(SDh::<PL, DL, 0>),
            e: Box::new(SDh::<PL, DL, 1>),
        },
    )
}

/// Free toy stubs, endpoint B ids.
pub fn snow_from_rm_b<const HL: usize, const PL: usize, const DL: usize>(
    hs: &Hs,
    name: &str,
    fixed_ephemeral: bool,
) -> HandshakeState {
    unsafe {
        CKEY[3] = hs.sym.k;
    }
    load_dh::<PL>(hs, EP_B);
    snow_from_rm_with::<PL>(
        hs,
        name,
        fixed_ephemeral,
        Objs {
            rng: Box::new(SRng),
            cipher: Box::new(SCipher::<3>),
            hasher: Box::new(SHash::<HL, 1>),
            cipher_i: Box::new(SCipher::<4>),
            cipher_r: Box::new(SCipher::<5>),
            s: Box::new(SDh::<PL, DL, 2>),
            e: Box::new(SDh::<PL, DL, 3>),
        },
    )
}

/// Oracle / length-only stubs (O(1) in data length), endpoint A ids. Flags and toggles are the reference
/// model's; hash values are irrelevant to what these harnesses assert.
pub fn snow_from_rm_oracle<const PL: usize, const DL: usize>(hs: &Hs, name: &str, fixed_ephemeral: bool) -> HandshakeState {
    load_dh::<PL>(hs, EP_A);
    snow_from_rm_with::<PL>(
        hs,
        name,
        fixed_ephemeral,
        Objs {
            rng: Box::new(SRng),
            cipher: Box::new(OCipher::<0>),
            hasher: Box::new(LHash::<8, 0>),
            cipher_i: Box::new(OCipher::<1>),
            cipher_r: Box::new(OCipher::<2>),
            s: Box::new(SDh::<PL, DL, 0>),
            e: Box::new(SDh::<PL, DL, 1>),
        },
    )
}

/// Ideal AEAD + free toy hash/DH, endpoint A ids (cipher objects 0,1,2) / endpoint B ids (3,4,5); both ends
/// share the ideal functionality's log.
pub fn snow_from_rm_ideal_a<const PL: usize, const DL: usize>(hs: &Hs, name: &str) -> HandshakeState {
    snow_from_rm_ideal_a_hl::<8, PL, DL>(hs, name)
}
/// same with a toy hash of HL bytes (HL = 64 exercises the "truncate to 32 bytes" branches of MixKey / Split)
pub fn snow_from_rm_ideal_a_hl<const HL: usize, const PL: usize, const DL: usize>(hs: &Hs, name: &str) -> HandshakeState {
    unsafe {
        CKEY[0] = hs.sym.k;
    }
    load_dh::<PL>(hs, EP_A);
    snow_from_rm_with::<PL>(
        hs,
        name,
        false,
        Objs {
            rng: Box::new(SRng),
            cipher: Box::new(ICipher::<0>),
            hasher: Box::new(SHash::<HL, 0>),
            cipher_i: Box::new(ICipher::<1>),
            cipher_r: Box::new(ICipher::<2>),
            s: Box::new(SDh::<PL, DL, 0>),
            e: Box::new(SDh::<PL, DL, 1>),
        },
    )
}
pub fn snow_from_rm_ideal_b<const PL: usize, const DL: usize>(hs: &Hs, name: &str) -> HandshakeState {
    unsafe {
        CKEY[3] = hs.sym.k;
    }
    load_dh::<PL>(hs, EP_B);
    snow_from_rm_with::<PL>(
        hs,
        name,
        false,
        Objs {
            rng: Box::new(SRng),
            cipher: Box::new(ICipher::<3>),
            hasher: Box::new(SHash::<8, 1>),
            cipher_i: Box::new(ICipher::<4>),
            cipher_r: Box::new(ICipher::<5>),
            s: Box::new(SDh::<PL, DL, 2>),
            e: Box::new(SDh::<PL, DL, 3>),
        },
    )
}

/// Ghost-logging stubs for C06 (hybrid hash, logging cipher), endpoint A ids.
pub fn snow_from_rm_ghost<const PL: usize, const DL: usize>(hs: &Hs, name: &str, fixed_ephemeral: bool) -> HandshakeState {
    unsafe {
        CKEY[0] = hs.sym.k;
    }
    load_dh::<PL>(hs, EP_A);
    snow_from_rm_with::<PL>(
        hs,
        name,
        fixed_ephemeral,
        Objs {
            rng: Box::new(SRng),
            cipher: Box::new(GCipher::<0>),
            hasher: Box::new(HHash::<8, 0>),
            cipher_i: Box::new(GCipher::<1>),
            cipher_r: Box::new(GCipher::<2>),
            s: Box::new(SDh::<PL, DL, 0>),
            e: Box::new(SDh::<PL, DL, 1>),
        },
    )
}

/// Compare a snow snapshot (+ the stub statics of endpoint `ids`) with a reference-model state.
/// Returns a bitmask of differing components (0 = equal): used as `assert!(diff == 0)`.
pub fn diff_state<P: Prims>(snap: &Snapshot, ids: Ids, hs: &Hs) -> u32 {
    let mut d = 0u32;
    let mut i = 0;
    while i < P::HL {
        if snap.h[i] != hs.sym.h[i] {
            d |= 1;
        }
        if snap.ck[i] != hs.sym.ck[i] {
            d |= 2;
        }
        i += 1;
    }
    if snap.has_key != hs.sym.has_k {
        d |= 4;
    }
    if hs.sym.has_k {
        if snap.cipher_nonce != hs.sym.n {
            d |= 8;
        }
        if !snap.cipher_has_key {
            d |= 16;
        }
        let k = cipher_key(ids.c0);
        let mut i = 0;
        while i < 32 {
            if k[i] != hs.sym.k[i] {
                d |= 32;
            }
            // the key a failed call would re-install must be the key that is installed (C07)
            if snap.checkpoint_key[i] != hs.sym.k[i] {
                d |= 1 << 16;
            }
            i += 1;
        }
    }
    if snap.e_on != hs.has_e {
        d |= 64;
    }
    if snap.re_on != hs.has_re {
        d |= 128;
    }
    if snap.rs_on != hs.has_rs {
        d |= 256;
    }
    if snap.s_on != hs.has_s {
        d |= 512;
    }
    let mut i = 0;
    while i < P::PL {
        unsafe {
            if hs.has_e && (DPUB[ids.e][i] != hs.e_pub[i] || DPRIV[ids.e][i] != hs.e_priv[i]) {
                d |= 1024;
            }
        }
        if hs.has_re && snap.re[i] != hs.re[i] {
            d |= 2048;
        }
        if hs.has_rs && snap.rs[i] != hs.rs[i] {
            d |= 4096;
        }
        i += 1;
    }
    if snap.pattern_position != hs.pos {
        d |= 8192;
    }
    if snap.my_turn != ((hs.pos % 2 == 0) == hs.initiator) {
        d |= 16384;
    }
    if snap.initiator != hs.initiator {
        d |= 32768;
    }
    d
}

pub type T844 = Toy<8, 4, 4>;
