//! C02 — honest sessions complete, agree, and deliver every payload intact: TWO REAL snow endpoints, one handshake
//! message passed unmodified from the state the specification reaches before it (fresh ephemeral drawn from the
//! stub RNG, all keys symbolic); after the last message both convert and exchange transport traffic, stateful and
//! stateless, both directions (initiator-to-responder only for one-way patterns).
#![allow(static_mut_refs)]
use super::common::*;
use crate::glue::*;
use crate::prims::Toy;
use crate::rm::*;
use snow::error::StateProblem;
use snow::Error;

pub fn honest_step<const PL: usize, const DL: usize, const PLEN: usize>(pat: Pat, psk_mask: u16, k: usize, stateless: bool) {
    let pro: [u8; 2] = kani::any();
    let mut pair = rm_pair::<Toy<8, PL, DL>>(pat, psk_mask, NAME.as_bytes(), &pro);
    rm_advance::<Toy<8, PL, DL>>(&mut pair, k);
    let (rmw, rmr) = if k % 2 == 0 { (pair.i, pair.r) } else { (pair.r, pair.i) };
    let mut w = snow_from_rm_a::<8, PL, DL>(&rmw, NAME, false);
    let mut r = snow_from_rm_b::<8, PL, DL>(&rmr, NAME, false);
    let e: [u8; 8] = kani::any();
    set_rng_slot(0, &e);
    let payload: [u8; PLEN] = kani::any();
    let mut msg = [0u8; MSGBUF];
    let mut out = [0u8; 8];
    let n = w.write_message(&payload, &mut msg);
    kani::cover!(n.is_ok(), "C02 write reachable");
    assert!(n.is_ok(), "C02: honest write failed");
    let n = n.unwrap_or(0);
    let got = r.read_message(&msg[..n], &mut out);
    assert!(got == Ok(PLEN), "C02: honest peer rejected an unmodified handshake message");
    let mut j = 0;
    while j < PLEN {
        assert!(out[j] == payload[j], "C02: handshake payload not delivered intact");
        j += 1;
    }
    let last = k + 1 == pat.nmsgs();
    assert!(w.is_handshake_finished() == last && r.is_handshake_finished() == last, "C02: both sides must finish exactly after the pattern's last message");
    let hw = w.get_handshake_hash();
    let hr = r.get_handshake_hash();
    let mut j = 0;
    while j < 8 {
        assert!(hw[j] == hr[j], "C02: the two sides report different handshake hashes");
        j += 1;
    }
    if !last {
        return;
    }
    // transport phase: who is the initiator?
    let w_is_initiator = w.is_initiator();
    let p1: [u8; 2] = kani::any();
    let p2: [u8; 2] = kani::any();
    let mut m1 = [0u8; 18];
    let mut m2 = [0u8; 18];
    let mut o = [0u8; 2];
    if stateless {
        let (tw, tr) = (w.into_stateless_transport_mode(), r.into_stateless_transport_mode());
        assert!(tw.is_ok() && tr.is_ok(), "C02: conversion failed after the last message");
        if let (Ok(tw), Ok(tr)) = (tw, tr) {
            let (ini, res) = if w_is_initiator { (&tw, &tr) } else { (&tr, &tw) };
            let nonce: u64 = kani::any();
            kani::assume(nonce != u64::MAX);
            assert!(ini.write_message(nonce, &p1, &mut m1) == Ok(18), "C02: initiator transport write");
            assert!(res.read_message(nonce, &m1, &mut o) == Ok(2) && o == p1, "C02: transport payload initiator->responder not delivered intact");
            let back = res.write_message(nonce, &p2, &mut m2);
            if pat.is_oneway() {
                assert!(back == Err(Error::State(StateProblem::OneWay)), "C02: responder of a one-way pattern must not write");
            } else {
                assert!(back == Ok(18), "C02: responder transport write");
                assert!(ini.read_message(nonce, &m2, &mut o) == Ok(2) && o == p2, "C02: transport payload responder->initiator not delivered intact");
            }
            core::mem::forget(tw);
            core::mem::forget(tr);
        }
    } else {
        let (tw, tr) = (w.into_transport_mode(), r.into_transport_mode());
        assert!(tw.is_ok() && tr.is_ok(), "C02: conversion failed after the last message");
        if let (Ok(mut tw), Ok(mut tr)) = (tw, tr) {
            let (ini, res) = if w_is_initiator { (&mut tw, &mut tr) } else { (&mut tr, &mut tw) };
            assert!(ini.write_message(&p1, &mut m1) == Ok(18), "C02: initiator transport write");
            assert!(res.read_message(&m1, &mut o) == Ok(2) && o == p1, "C02: transport payload initiator->responder not delivered intact");
            // second message in the same direction, then the other direction
            assert!(ini.write_message(&p2, &mut m1) == Ok(18), "C02: initiator transport write 2");
            assert!(res.read_message(&m1, &mut o) == Ok(2) && o == p2, "C02: second transport payload not delivered intact");
            let back = res.write_message(&p2, &mut m2);
            if pat.is_oneway() {
                assert!(back == Err(Error::State(StateProblem::OneWay)), "C02: responder of a one-way pattern must not write");
            } else {
                assert!(back == Ok(18), "C02: responder transport write");
                assert!(ini.read_message(&m2, &mut o) == Ok(2) && o == p2, "C02: transport payload responder->initiator not delivered intact");
            }
            core::mem::forget(tw);
            core::mem::forget(tr);
        }
    }
}

macro_rules! honest_harness {
    ($name:ident, $pl:expr, $dl:expr, $plen:expr, $pat:expr, $mask:expr, $k:expr, $sl:expr) => {
        #[kani::proof]
        #[kani::unwind(34)]
        pub fn $name() {
            honest_step::<$pl, $dl, $plen>($pat, $mask, $k, $sl);
        }
    };
}
honest_harness!(c02_q_nn_k1_stateful, 4, 4, 2, Pat::NN, 0, 1, false);
honest_harness!(c02_q_nk_k1_stateless, 4, 4, 1, Pat::NK, 0, 1, true);
honest_harness!(c02_t_xx_k2_stateless, 4, 4, 1, Pat::XX, 0, 2, true);
honest_harness!(c02_t_xx_k2_stateful, 4, 4, 1, Pat::XX, 0, 2, false);
honest_harness!(c02_q_xx_k1, 4, 4, 2, Pat::XX, 0, 1, false);
honest_harness!(c02_q_n_k0_oneway_stateful, 4, 4, 2, Pat::N, 0, 0, false);
honest_harness!(c02_q_ik_k0_p256shape, 5, 3, 2, Pat::IK, 0, 0, false);
honest_harness!(c02_q_nnpsk0_k0, 4, 4, 2, Pat::NN, 1, 0, false);
honest_harness!(c02_q_ix_k0_empty_payload, 4, 4, 0, Pat::IX, 0, 0, false);
honest_harness!(c02_q_n_k0_oneway_stateless, 4, 4, 1, Pat::N, 0, 0, true);
honest_harness!(c02_t_x_k0_oneway_stateless, 4, 4, 2, Pat::X, 0, 0, true);
honest_harness!(c02_t_ik_k1_stateful, 4, 4, 2, Pat::IK, 0, 1, false);
honest_harness!(c02_t_xxpsk3_k2, 4, 4, 1, Pat::XX, 8, 2, false);
honest_harness!(c02_t_x1x1_k3, 4, 4, 1, Pat::X1X1, 0, 3, false);
honest_harness!(c02_t_kk_k1_p256shape, 5, 3, 1, Pat::KK, 0, 1, true);

/// Keys produced by the library's own keypair generation are consistent (public == derive(private), lengths as
/// the DH reports), over the stub resolver.
#[kani::proof]
#[kani::unwind(12)]
pub fn c02_q_generate_keypair() {
    use crate::stubs::*;
    use snow::params::*;
    let seedv: [u8; 8] = kani::any();
    set_rng_slot(0, &seedv);
    let params = NoiseParams::new(
        "Noise_test".to_owned(),
        BaseChoice::Noise,
        HandshakeChoice { pattern: HandshakePattern::NN, modifiers: HandshakeModifierList { list: Vec::new() } },
        DHChoice::Curve25519,
        CipherChoice::ChaChaPoly,
        HashChoice::SHA256,
    );
    let b = snow::Builder::with_resolver(params, Box::new(StubResolver { rng: true, dh: true, cipher: true, hash: true }));
    let kp = b.generate_keypair();
    kani::cover!(kp.is_ok(), "C02 keypair reachable");
    assert!(kp.is_ok(), "C02: generate_keypair failed with a complete resolver");
    if let Ok(kp) = kp {
        assert!(kp.private.len() == 4 && kp.public.len() == 4, "C02: generated key lengths");
        let mut want = [0u8; 8];
        crate::toy::dh_pub(4, &kp.private, &mut want);
        let mut j = 0;
        while j < 4 {
            assert!(kp.private[j] == seedv[j] && kp.public[j] == want[j], "C02: generated public key is not derived from the generated private key");
            j += 1;
        }
        core::mem::forget(kp);
    }
    core::mem::forget(b);
}

/// Honest endpoints agree from the start: BOTH are created by the real `HandshakeState::new` (as
/// `Builder::build` calls it) from consistent symbolic keys and prologue; their handshake hashes must be equal
/// before the first message.
pub fn init_agree(pat: Pat) {
    use crate::stubs::*;
    use snow::verif;
    let pro: [u8; 2] = kani::any();
    let si: [u8; 8] = kani::any();
    let sr: [u8; 8] = kani::any();
    let mut pi = [0u8; 8];
    let mut pr = [0u8; 8];
    crate::toy::dh_pub(4, &si, &mut pi);
    crate::toy::dh_pub(4, &sr, &mut pr);
    let arr = |p: &[u8; 8]| {
        let mut a = [0u8; verif::MAXDHLEN];
        let mut j = 0;
        while j < 4 {
            a[j] = p[j];
            j += 1;
        }
        a
    };
    dh_set_priv(0, 4, &si);
    dh_set_priv(2, 4, &sr);
    let mk = |ini: bool| {
        let need_s = pat.needs_local_static(ini);
        let need_rs = pat.needs_remote_static(ini);
        if ini {
            verif::handshake_new(Box::new(SRng), Box::new(SCipher::<0>), Box::new(SHash::<8, 0>), Box::new(SDh::<4, 4, 0>), need_s, Box::new(SDh::<4, 4, 1>), false,
                arr(&pr), need_rs, true, mk_params(NAME, pat, 0), &[None; 10], &pro, Box::new(SCipher::<1>), Box::new(SCipher::<2>))
        } else {
            verif::handshake_new(Box::new(SRng), Box::new(SCipher::<3>), Box::new(SHash::<8, 1>), Box::new(SDh::<4, 4, 2>), need_s, Box::new(SDh::<4, 4, 3>), false,
                arr(&pi), need_rs, false, mk_params(NAME, pat, 0), &[None; 10], &pro, Box::new(SCipher::<4>), Box::new(SCipher::<5>))
        }
    };
    let (i, r) = (mk(true), mk(false));
    kani::cover!(i.is_ok() && r.is_ok(), "C02 init_agree reached");
    assert!(i.is_ok() && r.is_ok(), "C02: consistent configuration refused");
    if let (Ok(i), Ok(r)) = (i, r) {
        let (hi, hr) = (i.get_handshake_hash(), r.get_handshake_hash());
        let mut j = 0;
        while j < 8 {
            assert!(hi[j] == hr[j], "C02: honest endpoints start from different handshake hashes");
            j += 1;
        }
        core::mem::forget(i);
        core::mem::forget(r);
    }
}

macro_rules! init_agree_harness {
    ($name:ident, $pat:expr) => {
        #[kani::proof]
        #[kani::unwind(34)]
        pub fn $name() {
            init_agree($pat);
        }
    };
}
init_agree_harness!(c02_q_init_agree_kk, Pat::KK);
init_agree_harness!(c02_q_init_agree_k, Pat::K);
init_agree_harness!(c02_q_init_agree_nk, Pat::NK);
init_agree_harness!(c02_t_init_agree_k1k1, Pat::K1K1);
init_agree_harness!(c02_t_init_agree_kn, Pat::KN);
init_agree_harness!(c02_t_init_agree_x, Pat::X);

/// Every transport payload LENGTH is delivered: writer and reader of both kinds over the length-only oracle cipher,
/// payload length symbolic in 0..=65519 (the largest that fits a 65535-byte message): the write succeeds with
/// length + 16 and the peer's read of exactly those bytes returns the payload length.
#[kani::proof]
#[kani::unwind(20)]
pub fn c02_q_transport_any_length() {
    use crate::stubs::*;
    use snow::params::HandshakePattern;
    use snow::verif::MAXDHLEN;
    use snow::{StatelessTransportState, TransportState};
    static ZEROS: [u8; 65536] = [0u8; 65536];
    unsafe {
        O_COPY = false;
    }
    let plen: usize = kani::any();
    kani::assume(plen <= 65519);
    let w_stateless: bool = kani::any();
    let r_stateless: bool = kani::any();
    let w_initiator: bool = kani::any();
    let n: u64 = kani::any();
    kani::assume(n != u64::MAX);
    let mut msg = [0u8; 65536];
    let mut out = [0u8; 65536];
    let (ni, nr) = if w_initiator { (n, 0) } else { (0, n) };
    let wrote = if w_stateless {
        let w = StatelessTransportState::verif_from_parts(Box::new(OCipher::<1>), Box::new(OCipher::<2>), HandshakePattern::NN, 4, [0u8; MAXDHLEN], false, w_initiator);
        w.write_message(n, &ZEROS[..plen], &mut msg)
    } else {
        let mut w = TransportState::verif_from_parts(Box::new(OCipher::<1>), ni, Box::new(OCipher::<2>), nr, HandshakePattern::NN, 4, [0u8; MAXDHLEN], false, w_initiator);
        w.write_message(&ZEROS[..plen], &mut msg)
    };
    kani::cover!(wrote == Ok(65535), "C02 maximum-size transport message reachable");
    assert!(wrote == Ok(plen + 16), "C02: an honest transport payload was not written");
    let got = if r_stateless {
        let r = StatelessTransportState::verif_from_parts(Box::new(OCipher::<4>), Box::new(OCipher::<5>), HandshakePattern::NN, 4, [0u8; MAXDHLEN], false, !w_initiator);
        r.read_message(n, &msg[..plen + 16], &mut out)
    } else {
        let mut r = TransportState::verif_from_parts(Box::new(OCipher::<4>), ni, Box::new(OCipher::<5>), nr, HandshakePattern::NN, 4, [0u8; MAXDHLEN], false, !w_initiator);
        r.read_message(&msg[..plen + 16], &mut out)
    };
    assert!(got == Ok(plen), "C02: an honest transport message of a legal length was not delivered");
}

/// Honest delivery of a handshake message with a payload of ANY length that the 65535-byte limit allows (length
/// symbolic; oracle cipher and lengths-only hash, no data moved): the write succeeds with exactly the specification's
/// message length and the peer's read of those bytes returns the payload length; both advance. Un-keyed first message
/// (NN), keyed message with an encrypted static key (XX message 2).
pub fn honest_any_payload_length(pat: Pat, k: usize) {
    use crate::stubs::*;
    type P = Toy<8, 4, 4>;
    // the output buffer has 16 bytes to spare beyond the largest message: snow reserves room for a tag even when the
    // payload of an un-keyed message is sent in clear and refuses an exactly-sized buffer there (conservative, see C14)
    const BIG: usize = 65535 + 16 + 1;
    static ZEROS: [u8; BIG] = [0u8; BIG];
    let pro: [u8; 2] = [5, 6];
    let mut pair = rm_pair::<P>(pat, 0, NAME.as_bytes(), &pro);
    rm_advance::<P>(&mut pair, k);
    let (rmw, rmr) = if k % 2 == 0 { (pair.i, pair.r) } else { (pair.r, pair.i) };
    let plen: usize = kani::any();
    kani::assume(plen <= BIG);
    let want = HsOps::<P>::msg_len(pat, 0, k, plen);
    kani::assume(want <= 65535);
    let mut buf = [0u8; BIG];
    let mut out = [0u8; BIG];
    let mut w = snow_from_rm_oracle::<4, 4>(&rmw, NAME, false);
    unsafe {
        O_COPY = false;
    }
    let n = w.write_message(&ZEROS[..plen], &mut buf);
    kani::cover!(n.is_ok() && want > 65519, "C02 any-length handshake message within 16 bytes of the limit reachable");
    assert!(n == Ok(want), "C02: an honest handshake write of a payload that fits the 65535-byte limit failed or returned a wrong length");
    // the reader is built after the write: both endpoints share the oracle's object ids (no value flows through them)
    let mut r = snow_from_rm_oracle::<4, 4>(&rmr, NAME, false);
    unsafe {
        O_COPY = false;
        O_DEC_VERDICT[0] = true;
    }
    let got = r.read_message(&buf[..want], &mut out);
    assert!(got == Ok(plen), "C02: an honest handshake message of maximal size was not delivered");
    core::mem::forget(w);
    core::mem::forget(r);
}

#[kani::proof]
#[kani::unwind(34)]
pub fn c02_q_nn_k0_any_payload_length() {
    honest_any_payload_length(Pat::NN, 0);
}
#[kani::proof]
#[kani::unwind(34)]
pub fn c02_q_xx_k1_any_payload_length() {
    honest_any_payload_length(Pat::XX, 1);
}
