//! C13 — the protocol-name parser accepts exactly the Noise name grammar. Decomposed along the parser's own
//! structure: per-field public `FromStr` impls on SYMBOLIC field strings (ASCII, symbolic length), and the real
//! `NoiseParams::from_str` on names assembled from symbolic choices of concrete fields with a symbolic separator
//! structure.
use crate::grammar;
use snow::params::*;
use snow::Error;

fn ascii<const N: usize>() -> ([u8; N], usize) {
    let b: [u8; N] = kani::any();
    let len: usize = kani::any();
    kani::assume(len <= N);
    let mut i = 0;
    while i < N {
        kani::assume(b[i] < 0x80);
        i += 1;
    }
    (b, len)
}

fn is_pattern_err<T>(r: &Result<T, Error>) -> bool {
    matches!(r, Err(Error::Pattern(_)))
}

macro_rules! field_harness {
    ($name:ident, $n:expr, $ty:ty, $rm:expr, $unw:expr) => {
        #[kani::proof]
        #[kani::unwind($unw)]
        pub fn $name() {
            let (b, len) = ascii::<$n>();
            let s = unsafe { core::str::from_utf8_unchecked(&b[..len]) };
            let r: Result<$ty, Error> = s.parse();
            let want = ($rm)(&b[..len]);
            kani::cover!(r.is_ok(), "C13 field accepted reachable");
            kani::cover!(r.is_err(), "C13 field rejected reachable");
            assert!(r.is_ok() == want, "C13: field accepted iff the grammar accepts it");
            assert!(r.is_ok() || is_pattern_err(&r), "C13: rejection must be a pattern error");
        }
    };
}

field_harness!(c13_q_base, 7, BaseChoice, |s: &[u8]| grammar::is_base(s), 9);
field_harness!(c13_q_dh, 7, DHChoice, |s: &[u8]| grammar::dh(s).is_some(), 9);
field_harness!(c13_q_cipher, 12, CipherChoice, |s: &[u8]| grammar::cipher(s).is_some(), 14);
field_harness!(c13_q_hash, 9, HashChoice, |s: &[u8]| grammar::hash(s).is_some(), 11);
field_harness!(c13_q_pattern4, 4, HandshakePattern, |s: &[u8]| matches!(grammar::pattern_prefix(s), Some((_, l)) if l == s.len()), 9);
field_harness!(c13_t_pattern5, 5, HandshakePattern, |s: &[u8]| matches!(grammar::pattern_prefix(s), Some((_, l)) if l == s.len()), 9);

/// components of the primitive-name fields
#[kani::proof]
#[kani::unwind(14)]
pub fn c13_q_primitive_components() {
    let (b, len) = ascii::<12>();
    let s = unsafe { core::str::from_utf8_unchecked(&b[..len]) };
    if let Ok(c) = s.parse::<CipherChoice>() {
        let want = grammar::cipher(&b[..len]);
        assert!(want == Some(match c { CipherChoice::ChaChaPoly => 0, _ => 1 }), "C13: cipher component");
    }
    if let Ok(h) = s.parse::<HashChoice>() {
        let want = grammar::hash(&b[..len]);
        assert!(want == Some(match h { HashChoice::SHA256 => 0, HashChoice::SHA512 => 1, HashChoice::Blake2s => 2, HashChoice::Blake2b => 3 }), "C13: hash component");
    }
    if let Ok(d) = s.parse::<DHChoice>() {
        let want = grammar::dh(&b[..len]);
        assert!(want == Some(match d { DHChoice::Curve25519 => 0, _ => 1 }), "C13: dh component");
    }
    kani::cover!(true, "C13 components reached");
}

/// Replacement for `core::slice::memchr::memchr` (word-at-a-time scanning with alignment arithmetic, very
/// expensive to execute symbolically): same contract, naive loop. The real one runs in every native replay.
pub fn naive_memchr(x: u8, text: &[u8]) -> Option<usize> {
    let mut i = 0;
    while i < text.len() {
        if text[i] == x {
            return Some(i);
        }
        i += 1;
    }
    None
}

/// `HandshakeModifier::from_str` on a symbolic token (no separators involved).
#[kani::proof]
#[kani::unwind(12)]
pub fn c13_q_modifier_token8() {
    let (b, len) = ascii::<8>();
    let s = unsafe { core::str::from_utf8_unchecked(&b[..len]) };
    // a '+' never reaches this function through a protocol name (the list is split on '+' first); Rust's integer
    // parser would take it as a sign
    let mut i = 0;
    while i < 8 {
        kani::assume(b[i] != b'+');
        i += 1;
    }
    let r: Result<HandshakeModifier, Error> = s.parse();
    let want = grammar::modifier(&b[..len]);
    kani::cover!(matches!(r, Ok(HandshakeModifier::Psk(_))), "C13 psk token accepted reachable");
    kani::cover!(matches!(r, Ok(HandshakeModifier::Fallback)), "C13 fallback token accepted reachable");
    assert!(r.is_ok() == want.is_some(), "C13: modifier token accepted iff the grammar accepts it");
    assert!(r.is_ok() || is_pattern_err(&r), "C13: rejection must be a pattern error");
    match (r, want) {
        (Ok(HandshakeModifier::Psk(a)), Some(grammar::Modifier::Psk(b))) => assert!(a == b, "C13: psk index"),
        (Ok(HandshakeModifier::Fallback), Some(grammar::Modifier::Fallback)) => {},
        (Ok(_), _) => assert!(false, "C13: modifier component differs from the named one"),
        _ => {},
    }
}

fn same_mods(list: &[HandshakeModifier], want: &[Option<grammar::Modifier>; grammar::MAXMODS], n: usize) -> bool {
    if list.len() != n {
        return false;
    }
    let mut ok = true;
    let mut i = 0;
    while i < grammar::MAXMODS {
        if i < n {
            ok &= match (list[i], want[i]) {
                (HandshakeModifier::Psk(a), Some(grammar::Modifier::Psk(b))) => a == b,
                (HandshakeModifier::Fallback, Some(grammar::Modifier::Fallback)) => true,
                _ => false,
            };
        }
        i += 1;
    }
    ok
}

macro_rules! modlist_harness {
    ($name:ident, $n:expr, $unw:expr) => {
        #[kani::proof]
        #[kani::unwind($unw)]
        #[kani::stub(core::slice::memchr::memchr, naive_memchr)]
        pub fn $name() {
            let (b, len) = ascii::<$n>();
            let s = unsafe { core::str::from_utf8_unchecked(&b[..len]) };
            let r: Result<HandshakeModifierList, Error> = s.parse();
            let want = grammar::modifiers(&b[..len]);
            kani::cover!(r.is_ok() && len > 3, "C13 modifier list accepted reachable");
            kani::cover!(r.is_err(), "C13 modifier list rejected reachable");
            assert!(r.is_ok() == want.is_some(), "C13: modifier list accepted iff the grammar accepts it");
            assert!(r.is_ok() || is_pattern_err(&r), "C13: rejection must be a pattern error");
            if let (Ok(l), Some((w, n))) = (&r, &want) {
                assert!(same_mods(&l.list, w, *n), "C13: parsed modifiers differ from the named ones");
            }
        }
    };
}
modlist_harness!(c13_t_modlist5, 5, 12);

macro_rules! choice_harness {
    ($name:ident, $n:expr, $unw:expr) => {
        #[kani::proof]
        #[kani::unwind($unw)]
        #[kani::stub(core::slice::memchr::memchr, naive_memchr)]
        pub fn $name() {
            let (b, len) = ascii::<$n>();
            let s = unsafe { core::str::from_utf8_unchecked(&b[..len]) };
            let r: Result<HandshakeChoice, Error> = s.parse();
            let want = grammar::handshake(&b[..len]);
            kani::cover!(r.is_ok() && len > 4, "C13 handshake field with modifier accepted reachable");
            kani::cover!(r.is_err(), "C13 handshake field rejected reachable");
            assert!(r.is_ok() == want.is_some(), "C13: handshake field accepted iff the grammar accepts it");
            assert!(r.is_ok() || is_pattern_err(&r), "C13: rejection must be a pattern error");
            if let (Ok(c), Some((p, w, n))) = (&r, &want) {
                assert!(c.pattern.as_str().as_bytes() == p.name().as_bytes(), "C13: parsed pattern differs from the named one");
                assert!(same_mods(&c.modifiers.list, w, *n), "C13: parsed modifiers differ from the named ones");
            }
        }
    };
}
choice_harness!(c13_t_choice5, 5, 12);

/// Template harnesses: a concrete name skeleton with SYMBOLIC holes (arbitrary ASCII bytes) where the interesting
/// decisions are made - digits of psk indices, duplicate detection across '+', the character after a pattern
/// name. Everything outside the holes is concrete, which keeps the split/Vec machinery cheap for the solver.
fn check_choice(bytes: &[u8]) {
    let s = unsafe { core::str::from_utf8_unchecked(bytes) };
    let r: Result<HandshakeChoice, Error> = s.parse();
    let want = grammar::handshake(bytes);
    kani::cover!(r.is_ok(), "C13 template accepted reachable");
    kani::cover!(r.is_err(), "C13 template rejected reachable");
    assert!(r.is_ok() == want.is_some(), "C13: handshake field accepted iff the grammar accepts it");
    assert!(r.is_ok() || is_pattern_err(&r), "C13: rejection must be a pattern error");
    if let (Ok(c), Some((p, w, n))) = (&r, &want) {
        assert!(c.pattern.as_str().as_bytes() == p.name().as_bytes(), "C13: parsed pattern differs from the named one");
        assert!(same_mods(&c.modifiers.list, w, *n), "C13: parsed modifiers differ from the named ones");
    }
}

fn hole() -> u8 {
    let b: u8 = kani::any();
    kani::assume(b < 0x80);
    b
}

/// The real `NoiseParams::from_str` on whole names with symbolic holes at the separators / after the name:
/// accepted iff the grammar accepts; the parsed value preserves the input verbatim and names the components.
fn check_name(bytes: &[u8]) {
    let s = unsafe { core::str::from_utf8_unchecked(bytes) };
    let r: Result<NoiseParams, Error> = s.parse();
    let want = grammar::name_ok(bytes);
    kani::cover!(r.is_ok(), "C13 name accepted reachable");
    kani::cover!(r.is_err(), "C13 name rejected reachable");
    assert!(r.is_ok() == want, "C13: protocol name accepted iff it has the form Noise_<handshake>_<dh>_<cipher>_<hash>");
    assert!(r.is_ok() || is_pattern_err(&r), "C13: rejection must be a pattern error");
    if let Ok(p) = r {
        assert!(p.name.as_bytes() == bytes, "C13: the parsed value does not preserve the name verbatim");
        assert!(p.base == BaseChoice::Noise, "C13: base component");
        core::mem::forget(p);
    }
}

macro_rules! name_harness {
    ($name:ident, $tmpl:expr) => {
        #[kani::proof]
        #[kani::unwind(34)]
        #[kani::stub(core::slice::memchr::memchr, naive_memchr)]
        pub fn $name() {
            const T: &[u8] = $tmpl;
            let mut b = [0u8; T.len()];
            let mut i = 0;
            while i < T.len() {
                b[i] = if T[i] == b'?' { hole() } else { T[i] };
                i += 1;
            }
            check_name(&b);
        }
    };
}
name_harness!(c13_t_name_trailing, b"Noise_NN_25519_AESGCM_SHA512?");

/// Modifier tokens as templates with symbolic holes: repeated / displaced prefixes, digit positions, near-misses of
/// "fallback". Concrete skeletons keep the string searchers concrete (a fully symbolic token under a changed parser can
/// time out, which is inconclusive rather than a verdict).
macro_rules! modifier_template {
    ($name:ident, $tmpl:expr) => {
        #[kani::proof]
        #[kani::unwind(12)]
        pub fn $name() {
            const T: &[u8] = $tmpl;
            let mut b = [0u8; T.len()];
            let mut i = 0;
            while i < T.len() {
                b[i] = if T[i] == b'?' { hole() } else { T[i] };
                kani::assume(b[i] != b'+');
                i += 1;
            }
            let s = unsafe { core::str::from_utf8_unchecked(&b) };
            let r: Result<HandshakeModifier, Error> = s.parse();
            let want = grammar::modifier(&b);
            kani::cover!(true, "C13 modifier template reached");
            assert!(r.is_ok() == want.is_some(), "C13: modifier token accepted iff the grammar accepts it");
            assert!(r.is_ok() || is_pattern_err(&r), "C13: rejection must be a pattern error");
            match (r, want) {
                (Ok(HandshakeModifier::Psk(a)), Some(grammar::Modifier::Psk(c))) => assert!(a == c, "C13: psk index"),
                (Ok(HandshakeModifier::Fallback), Some(grammar::Modifier::Fallback)) => {},
                (Ok(_), _) => assert!(false, "C13: modifier component differs from the named one"),
                _ => {},
            }
        }
    };
}
modifier_template!(c13_q_modtmpl_psk_digit, b"psk?");
modifier_template!(c13_q_modtmpl_psk_two, b"psk??");
modifier_template!(c13_q_modtmpl_pskpsk, b"pskpsk?");
modifier_template!(c13_q_modtmpl_psk_then_text, b"psk?psk");
modifier_template!(c13_q_modtmpl_fallback_last, b"fallbac?");
modifier_template!(c13_q_modtmpl_fallback_first, b"?allback");
modifier_template!(c13_t_modtmpl_psk_three, b"psk???");
modifier_template!(c13_t_modtmpl_ppsk, b"?psk1");

/// Separator-mask replacement for `core::slice::memchr::memchr`, for templates whose separator positions are
/// CONCRETE (holes are assumed not to be the separator). `str::split(char)` always hands memchr the suffix
/// `haystack[finger..]` of the string being split, so the offset of `text` inside the template is
/// `T.len() - text.len()`, and under the harness's assumption "byte i is the separator iff T[i] is" the first
/// separator of the TEMPLATE at or after that offset IS memchr's contractual result. Unlike `naive_memchr` the result
/// is a constant for the solver, so the splitting machinery, the `Vec` of modifiers and the duplicate scan run on
/// concrete segment boundaries and only the hole bytes stay symbolic (with `naive_memchr` the same query does not
/// finish in 10 minutes; with this stub it takes seconds). The stub asserts the needle is the separator and that
/// the haystack is a suffix. The real memchr runs in every native replay. (The template is a `const`, not a
/// `static mut`: with a mutable static mask CBMC lost track of the `Vec` in `from_str` and reported spurious
/// pointer failures - such runs are classified inconclusive by the runner, never as a verdict.)
macro_rules! modlist_mask_template {
    ($name:ident, $stubmod:ident, $tmpl:expr, $unw:expr, $both:expr) => {
        mod $stubmod {
            pub const T: &[u8] = $tmpl;
            pub fn memchr(x: u8, text: &[u8]) -> Option<usize> {
                assert!(x == b'+', "C13 harness: memchr needle is not the template's separator");
                assert!(text.len() <= T.len(), "C13 harness: memchr haystack is not a suffix of the template");
                let off = T.len() - text.len();
                let mut i = 0;
                while i < text.len() {
                    if T[off + i] == b'+' {
                        return Some(i);
                    }
                    i += 1;
                }
                None
            }
        }
        #[kani::proof]
        #[kani::unwind($unw)]
        #[kani::stub(core::slice::memchr::memchr, $stubmod::memchr)]
        pub fn $name() {
            const T: &[u8] = $tmpl;
            let mut b = [0u8; T.len()];
            let mut i = 0;
            while i < T.len() {
                if T[i] == b'?' {
                    b[i] = hole();
                    kani::assume(b[i] != b'+');
                } else {
                    b[i] = T[i];
                }
                i += 1;
            }
            let s = unsafe { core::str::from_utf8_unchecked(&b) };
            let r: Result<HandshakeModifierList, Error> = s.parse();
            let want = grammar::modifiers(&b);
            // templates that no filling makes valid (empty segments) have one witness, the others two
            kani::cover!(r.is_ok() || !$both, "C13 modifier list template accepted reachable");
            kani::cover!(r.is_err() && want.is_none(), "C13 modifier list template rejected reachable");
            assert!(r.is_ok() == want.is_some(), "C13: modifier list accepted iff the grammar accepts it (non-duplicate, '+'-separated)");
            assert!(r.is_ok() || is_pattern_err(&r), "C13: rejection must be a pattern error");
            if let (Ok(l), Some((w, n))) = (&r, &want) {
                assert!(same_mods(&l.list, w, *n), "C13: parsed modifiers differ from the named ones");
            }
            core::mem::forget(r);
        }
    };
}
modlist_mask_template!(c13_q_modlist_mask_two, mask_two, b"psk?+psk?", 12, true);
modlist_mask_template!(c13_q_modlist_mask_three, mask_three, b"psk?+psk?+psk?", 16, true);
// one hole only: the cheapest query that still separates "duplicate anywhere" from "duplicate of the neighbour"
modlist_mask_template!(c13_q_modlist_mask_aba, mask_aba, b"psk1+psk2+psk?", 16, true);
modlist_mask_template!(c13_q_modlist_mask_empty_mid, mask_e1, b"psk?++psk?", 12, false);
modlist_mask_template!(c13_q_modlist_mask_empty_first, mask_e2, b"+psk?", 12, false);
modlist_mask_template!(c13_t_modlist_mask_empty_last, mask_e3, b"psk?+", 12, false);
modlist_mask_template!(c13_q_modlist_mask_fallback, mask_fallback, b"psk?+fallbac?+psk?", 20, true);
modlist_mask_template!(c13_t_modlist_mask_four, mask_four, b"psk?+psk?+psk?+psk?", 21, true);
modlist_mask_template!(c13_q_modlist_mask_free3, mask_free3, b"????+????+????", 16, true);

/// Two-level separator stub for whole names and handshake fields: needle '_' is searched in a suffix of the whole
/// template, needle '+' in a suffix of the handshake field (which ends at the template's second '_', or at its end
/// when the template is a bare handshake field). Same justification as above; holes are neither '_' nor '+'.
macro_rules! sep_stub {
    ($stubmod:ident, $tmpl:expr) => {
        mod $stubmod {
            pub const T: &[u8] = $tmpl;
            pub const fn field_end() -> usize {
                let mut seen = 0;
                let mut i = 0;
                while i < T.len() {
                    if T[i] == b'_' {
                        seen += 1;
                        if seen == 2 {
                            return i;
                        }
                    }
                    i += 1;
                }
                T.len()
            }
            pub const E: usize = field_end();
            pub fn memchr(x: u8, text: &[u8]) -> Option<usize> {
                assert!(x == b'+' || x == b'_', "C13 harness: memchr needle is not a separator of the template");
                let end = if x == b'_' { T.len() } else { E };
                assert!(text.len() <= end, "C13 harness: memchr haystack is not a suffix of the template / handshake field");
                let off = end - text.len();
                let mut i = 0;
                while i < text.len() {
                    if T[off + i] == x {
                        return Some(i);
                    }
                    i += 1;
                }
                None
            }
        }
    };
}

fn fill<const N: usize>(t: &[u8; N]) -> [u8; N] {
    let mut b = [0u8; N];
    let mut i = 0;
    while i < N {
        if t[i] == b'?' {
            b[i] = hole();
            kani::assume(b[i] != b'+' && b[i] != b'_');
        } else {
            b[i] = t[i];
        }
        i += 1;
    }
    b
}

/// `HandshakeChoice::from_str` (longest-prefix pattern split, then the modifier list) on templates with symbolic holes.
macro_rules! choice_mask_template {
    ($name:ident, $stubmod:ident, $tmpl:expr, $unw:expr) => {
        sep_stub!($stubmod, $tmpl);
        #[kani::proof]
        #[kani::unwind($unw)]
        #[kani::stub(core::slice::memchr::memchr, $stubmod::memchr)]
        pub fn $name() {
            let b = fill($tmpl);
            let s = unsafe { core::str::from_utf8_unchecked(&b) };
            let r: Result<HandshakeChoice, Error> = s.parse();
            let want = grammar::handshake(&b);
            kani::cover!(r.is_ok(), "C13 handshake template accepted reachable");
            kani::cover!(r.is_err() && want.is_none(), "C13 handshake template rejected reachable");
            assert!(r.is_ok() == want.is_some(), "C13: handshake field accepted iff the grammar accepts it");
            assert!(r.is_ok() || is_pattern_err(&r), "C13: rejection must be a pattern error");
            if let (Ok(c), Some((p, w, n))) = (&r, &want) {
                assert!(c.pattern.as_str().as_bytes() == p.name().as_bytes(), "C13: parsed pattern differs from the named one");
                assert!(same_mods(&c.modifiers.list, w, *n), "C13: parsed modifiers differ from the named ones");
            }
            core::mem::forget(r);
        }
    };
}
choice_mask_template!(c13_q_choice_mask_xx_two_psk, mask_c1, b"XXpsk?+psk?", 14);
// (a hole inside the pattern name makes the pattern/modifier boundary symbolic: "X?psk1+psk?" runs out of memory after
// 9 minutes of symbolic execution - not decided; the pattern split itself is c13_q_pattern4 / c13_t_pattern5)
choice_mask_template!(c13_q_choice_mask_three, mask_c4, b"X1X1psk?+psk?+psk?", 21);
choice_mask_template!(c13_q_choice_mask_fallback, mask_c6, b"XXfallbac?+psk?", 18);

/// The real `NoiseParams::from_str` on whole-name templates: accepted iff the grammar accepts; the parsed value keeps
/// the input verbatim and names exactly the components the fields name. Holes may sit anywhere except inside the
/// pattern name (a symbolic pattern/modifier boundary makes every later slice boundary symbolic: out of memory).
macro_rules! name_mask_template {
    ($name:ident, $stubmod:ident, $tmpl:expr, $unw:expr, $both:expr) => {
        name_mask_template!($name, $stubmod, $tmpl, $unw, $both, false);
    };
    // $digits: holes are decimal digits (templates every filling of which is a valid name: one witness, acceptance)
    ($name:ident, $stubmod:ident, $tmpl:expr, $unw:expr, $both:expr, $digits:expr) => {
        sep_stub!($stubmod, $tmpl);
        #[kani::proof]
        #[kani::unwind($unw)]
        #[kani::stub(core::slice::memchr::memchr, $stubmod::memchr)]
        pub fn $name() {
            const T: &[u8] = $tmpl;
            let b = fill($tmpl);
            if $digits {
                let mut i = 0;
                while i < T.len() {
                    if T[i] == b'?' {
                        kani::assume(b[i] >= b'0' && b[i] <= b'9');
                    }
                    i += 1;
                }
            }
            let s = unsafe { core::str::from_utf8_unchecked(&b) };
            let r: Result<NoiseParams, Error> = s.parse();
            // Reference verdict. The '_' structure of the input is the template's (holes are not separators), so the
            // fields are cut at the template's concrete positions; each field goes through its byte-level recogniser.
            // (Scanning the symbolic bytes for '_' again inside the oracle - grammar::name_ok - is what made these
            // harnesses exceed 10 minutes; snow's side of the query was never the bottleneck.)
            let mut bounds = [0usize; 8];
            let mut nb = 1;
            let mut i = 0;
            while i < T.len() {
                if T[i] == b'_' && nb < 7 {
                    bounds[nb] = i + 1;
                    nb += 1;
                }
                i += 1;
            }
            let nfields = nb;
            bounds[nb] = T.len() + 1;
            let f = |k: usize| &b[bounds[k]..bounds[k + 1] - 1];
            let want = nfields == 5 && grammar::is_base(f(0)) && grammar::handshake(f(1)).is_some() && grammar::dh(f(2)).is_some() && grammar::cipher(f(3)).is_some() && grammar::hash(f(4)).is_some();
            // templates that no filling makes valid have one witness (rejection), the others two
            kani::cover!(r.is_ok() || !$both, "C13 name template accepted reachable");
            kani::cover!((r.is_err() && !want) || $digits, "C13 name template rejected reachable");
            assert!(r.is_ok() == want, "C13: protocol name accepted iff it has the form Noise_<handshake>_<dh>_<cipher>_<hash>");
            assert!(r.is_ok() || is_pattern_err(&r), "C13: rejection must be a pattern error");
            if let Ok(p) = r {
                assert!(p.name.as_bytes() == &b[..], "C13: the parsed value does not preserve the name verbatim");
                assert!(p.base == BaseChoice::Noise, "C13: base component");
                match grammar::handshake(f(1)) {
                    Some((pat, w, n)) => {
                        assert!(p.handshake.pattern.as_str().as_bytes() == pat.name().as_bytes(), "C13: parsed pattern differs from the named one");
                        assert!(same_mods(&p.handshake.modifiers.list, &w, n), "C13: parsed modifiers differ from the named ones");
                    },
                    None => assert!(false, "C13: accepted a name whose handshake field the grammar rejects"),
                }
                assert!(grammar::dh(f(2)) == Some(match p.dh { DHChoice::Curve25519 => 0, _ => 1 }), "C13: dh component");
                assert!(grammar::cipher(f(3)) == Some(match p.cipher { CipherChoice::ChaChaPoly => 0, _ => 1 }), "C13: cipher component");
                assert!(
                    grammar::hash(f(4)) == Some(match p.hash { HashChoice::SHA256 => 0, HashChoice::SHA512 => 1, HashChoice::Blake2s => 2, HashChoice::Blake2b => 3 }),
                    "C13: hash component"
                );
                core::mem::forget(p);
            }
        }
    };
}
name_mask_template!(c13_q_name_mask_extra_field, mask_n3, b"Noise_NN_25519_AESGCM_SHA512_?", 33, false);
name_mask_template!(c13_q_name_mask_too_few, mask_n4, b"Noise_NN_25519_AESGC?", 24, false);
name_mask_template!(c13_q_name_mask_empty_field, mask_n6, b"Noise_NN__AESGCM_SHA25?", 26, false);
name_mask_template!(c13_q_name_mask_psk_digit, mask_n9, b"Noise_NNpsk?_25519_AESGCM_SHA256", 36, true, true);
name_mask_template!(c13_q_name_mask_psk, mask_n1, b"Noise_XXpsk?+psk?_25519_ChaChaPoly_SHA256", 44, true);
name_mask_template!(c13_q_name_mask_fields, mask_n2, b"Noise_NN_2551?_AESGC?_SHA51?", 31, true);
name_mask_template!(c13_q_name_mask_base, mask_n5, b"Nois?_NN_448_AESGCM_BLAKE2?", 30, true);
name_mask_template!(c13_q_name_mask_last_field, mask_n0, b"Noise_NNpsk0+psk2_25519_AESGCM_SHA51?", 40, true);
