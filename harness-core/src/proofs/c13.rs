//! C13 — the protocol-name parser accepts exactly the Noise name grammar. Decomposed along the parser's own
//! structure: per-field public `FromStr` impls on SYMBOLIC field strings (ASCII, symbolic length), and the real
//! `NoiseParams::from_str` on names assembled from symbolic choices of concrete fields with a symbolic separator
//! structure.
use crate::grammar;
use snow::params::*;
use snow::Error;

fn ascii<const N: usize>() -> ([u8; N], usize) {
    let b: [u8; N] = kani::any();
    let len: usize = kani::any();
    kani::assume(len <= N);
    let mut i = 0;
    while i < N {
        kani::assume(b[i] < 0x80);
        i += 1;
    }
    (b, len)
}

fn is_pattern_err<T>(r: &Result<T, Error>) -> bool {
    matches!(r, Err(Error::Pattern(_)))
}

macro_rules! field_harness {
    ($name:ident, $n:expr, $ty:ty, $rm:expr, $unw:expr) => {
        #[kani::proof]
        #[kani::unwind($unw)]
        pub fn $name() {
            let (b, len) = ascii::<$n>();
            let s = unsafe { core::str::from_utf8_unchecked(&b[..len]) };
            let r: Result<$ty, Error> = s.parse();
            let want = ($rm)(&b[..len]);
            kani::cover!(r.is_ok(), "C13 field accepted reachable");
            kani::cover!(r.is_err(), "C13 field rejected reachable");
            assert!(r.is_ok() == want, "C13: field accepted iff the grammar accepts it");
            assert!(r.is_ok() || is_pattern_err(&r), "C13: rejection must be a pattern error");
        }
    };
}

field_harness!(c13_q_base, 7, BaseChoice, |s: &[u8]| grammar::is_base(s), 9);
field_harness!(c13_q_dh, 7, DHChoice, |s: &[u8]| grammar::dh(s).is_some(), 9);
field_harness!(c13_q_cipher, 12, CipherChoice, |s: &[u8]| grammar::cipher(s).is_some(), 14);
field_harness!(c13_q_hash, 9, HashChoice, |s: &[u8]| grammar::hash(s).is_some(), 11);
field_harness!(c13_q_pattern4, 4, HandshakePattern, |s: &[u8]| matches!(grammar::pattern_prefix(s), Some((_, l)) if l == s.len()), 9);
field_harness!(c13_t_pattern5, 5, HandshakePattern, |s: &[u8]| matches!(grammar::pattern_prefix(s), Some((_, l)) if l == s.len()), 9);

/// components of the primitive-name fields
#[kani::proof]
#[kani::unwind(14)]
pub fn c13_q_primitive_components() {
    let (b, len) = ascii::<12>();
    let s = unsafe { core::str::from_utf8_unchecked(&b[..len]) };
    if let Ok(c) = s.parse::<CipherChoice>() {
        let want = grammar::cipher(&b[..len]);
        assert!(want == Some(match c { CipherChoice::ChaChaPoly => 0, _ => 1 }), "C13: cipher component");
    }
    if let Ok(h) = s.parse::<HashChoice>() {
        let want = grammar::hash(&b[..len]);
        assert!(want == Some(match h { HashChoice::SHA256 => 0, HashChoice::SHA512 => 1, HashChoice::Blake2s => 2, HashChoice::Blake2b => 3 }), "C13: hash component");
    }
    if let Ok(d) = s.parse::<DHChoice>() {
        let want = grammar::dh(&b[..len]);
        assert!(want == Some(match d { DHChoice::Curve25519 => 0, _ => 1 }), "C13: dh component");
    }
    kani::cover!(true, "C13 components reached");
}

/// Replacement for `core::slice::memchr::memchr` (word-at-a-time scanning with alignment arithmetic, very
/// expensive to execute symbolically): same contract, naive loop. The real one runs in every native replay.
pub fn naive_memchr(x: u8, text: &[u8]) -> Option<usize> {
    let mut i = 0;
    while i < text.len() {
        if text[i] == x {
            return Some(i);
        }
        i += 1;
    }
    None
}

/// `HandshakeModifier::from_str` on a symbolic token (no separators involved).
#[kani::proof]
#[kani::unwind(12)]
pub fn c13_q_modifier_token8() {
    let (b, len) = ascii::<8>();
    let s = unsafe { core::str::from_utf8_unchecked(&b[..len]) };
    // a '+' never reaches this function through a protocol name (the list is split on '+' first); Rust's integer
    // parser would take it as a sign
    let mut i = 0;
    while i < 8 {
        kani::assume(b[i] != b'+');
        i += 1;
    }
    let r: Result<HandshakeModifier, Error> = s.parse();
    let want = grammar::modifier(&b[..len]);
    kani::cover!(matches!(r, Ok(HandshakeModifier::Psk(_))), "C13 psk token accepted reachable");
    kani::cover!(matches!(r, Ok(HandshakeModifier::Fallback)), "C13 fallback token accepted reachable");
    assert!(r.is_ok() == want.is_some(), "C13: modifier token accepted iff the grammar accepts it");
    assert!(r.is_ok() || is_pattern_err(&r), "C13: rejection must be a pattern error");
    match (r, want) {
        (Ok(HandshakeModifier::Psk(a)), Some(grammar::Modifier::Psk(b))) => assert!(a == b, "C13: psk index"),
        (Ok(HandshakeModifier::Fallback), Some(grammar::Modifier::Fallback)) => {},
        (Ok(_), _) => assert!(false, "C13: modifier component differs from the named one"),
        _ => {},
    }
}

fn same_mods(list: &[HandshakeModifier], want: &[Option<grammar::Modifier>; grammar::MAXMODS], n: usize) -> bool {
    if list.len() != n {
        return false;
    }
    let mut ok = true;
    let mut i = 0;
    while i < grammar::MAXMODS {
        if i < n {
            ok &= match (list[i], want[i]) {
                (HandshakeModifier::Psk(a), Some(grammar::Modifier::Psk(b))) => a == b,
                (HandshakeModifier::Fallback, Some(grammar::Modifier::Fallback)) => true,
                _ => false,
            };
        }
        i += 1;
    }
    ok
}

macro_rules! modlist_harness {
    ($name:ident, $n:expr, $unw:expr) => {
        #[kani::proof]
        #[kani::unwind($unw)]
        #[kani::stub(core::slice::memchr::memchr, naive_memchr)]
        pub fn $name() {
            let (b, len) = ascii::<$n>();
            let s = unsafe { core::str::from_utf8_unchecked(&b[..len]) };
            let r: Result<HandshakeModifierList, Error> = s.parse();
            let want = grammar::modifiers(&b[..len]);
            kani::cover!(r.is_ok() && len > 3, "C13 modifier list accepted reachable");
            kani::cover!(r.is_err(), "C13 modifier list rejected reachable");
            assert!(r.is_ok() == want.is_some(), "C13: modifier list accepted iff the grammar accepts it");
            assert!(r.is_ok() || is_pattern_err(&r), "C13: rejection must be a pattern error");
            if let (Ok(l), Some((w, n))) = (&r, &want) {
                assert!(same_mods(&l.list, w, *n), "C13: parsed modifiers differ from the named ones");
            }
        }
    };
}
modlist_harness!(c13_t_modlist5, 5, 12);

macro_rules! choice_harness {
    ($name:ident, $n:expr, $unw:expr) => {
        #[kani::proof]
        #[kani::unwind($unw)]
        #[kani::stub(core::slice::memchr::memchr, naive_memchr)]
        pub fn $name() {
            let (b, len) = ascii::<$n>();
            let s = unsafe { core::str::from_utf8_unchecked(&b[..len]) };
            let r: Result<HandshakeChoice, Error> = s.parse();
            let want = grammar::handshake(&b[..len]);
            kani::cover!(r.is_ok() && len > 4, "C13 handshake field with modifier accepted reachable");
            kani::cover!(r.is_err(), "C13 handshake field rejected reachable");
            assert!(r.is_ok() == want.is_some(), "C13: handshake field accepted iff the grammar accepts it");
            assert!(r.is_ok() || is_pattern_err(&r), "C13: rejection must be a pattern error");
            if let (Ok(c), Some((p, w, n))) = (&r, &want) {
                assert!(c.pattern.as_str().as_bytes() == p.name().as_bytes(), "C13: parsed pattern differs from the named one");
                assert!(same_mods(&c.modifiers.list, w, *n), "C13: parsed modifiers differ from the named ones");
            }
        }
    };
}
choice_harness!(c13_t_choice5, 5, 12);

/// Template harnesses: a concrete name skeleton with SYMBOLIC holes (arbitrary ASCII bytes) where the interesting
/// decisions are made - digits of psk indices, duplicate detection across '+', the character after a pattern
/// name. Everything outside the holes is concrete, which keeps the split/Vec machinery cheap for the solver.
fn check_choice(bytes: &[u8]) {
    let s = unsafe { core::str::from_utf8_unchecked(bytes) };
    let r: Result<HandshakeChoice, Error> = s.parse();
    let want = grammar::handshake(bytes);
    kani::cover!(r.is_ok(), "C13 template accepted reachable");
    kani::cover!(r.is_err(), "C13 template rejected reachable");
    assert!(r.is_ok() == want.is_some(), "C13: handshake field accepted iff the grammar accepts it");
    assert!(r.is_ok() || is_pattern_err(&r), "C13: rejection must be a pattern error");
    if let (Ok(c), Some((p, w, n))) = (&r, &want) {
        assert!(c.pattern.as_str().as_bytes() == p.name().as_bytes(), "C13: parsed pattern differs from the named one");
        assert!(same_mods(&c.modifiers.list, w, *n), "C13: parsed modifiers differ from the named ones");
    }
}

fn hole() -> u8 {
    let b: u8 = kani::any();
    kani::assume(b < 0x80);
    b
}

macro_rules! template_harness {
    ($name:ident, $tmpl:expr) => {
        #[kani::proof]
        #[kani::unwind(19)]
        #[kani::stub(core::slice::memchr::memchr, naive_memchr)]
        pub fn $name() {
            // '?' marks a hole
            const T: &[u8] = $tmpl;
            let mut b = [0u8; T.len()];
            let mut i = 0;
            while i < T.len() {
                b[i] = if T[i] == b'?' { hole() } else { T[i] };
                i += 1;
            }
            check_choice(&b);
        }
    };
}
template_harness!(c13_t_tmpl_xx_two_psk, b"XXpsk?+psk?");

/// The real `NoiseParams::from_str` on whole names with symbolic holes at the separators / after the name:
/// accepted iff the grammar accepts; the parsed value preserves the input verbatim and names the components.
fn check_name(bytes: &[u8]) {
    let s = unsafe { core::str::from_utf8_unchecked(bytes) };
    let r: Result<NoiseParams, Error> = s.parse();
    let want = grammar::name_ok(bytes);
    kani::cover!(r.is_ok(), "C13 name accepted reachable");
    kani::cover!(r.is_err(), "C13 name rejected reachable");
    assert!(r.is_ok() == want, "C13: protocol name accepted iff it has the form Noise_<handshake>_<dh>_<cipher>_<hash>");
    assert!(r.is_ok() || is_pattern_err(&r), "C13: rejection must be a pattern error");
    if let Ok(p) = r {
        assert!(p.name.as_bytes() == bytes, "C13: the parsed value does not preserve the name verbatim");
        assert!(p.base == BaseChoice::Noise, "C13: base component");
        core::mem::forget(p);
    }
}

macro_rules! name_harness {
    ($name:ident, $tmpl:expr) => {
        #[kani::proof]
        #[kani::unwind(34)]
        #[kani::stub(core::slice::memchr::memchr, naive_memchr)]
        pub fn $name() {
            const T: &[u8] = $tmpl;
            let mut b = [0u8; T.len()];
            let mut i = 0;
            while i < T.len() {
                b[i] = if T[i] == b'?' { hole() } else { T[i] };
                i += 1;
            }
            check_name(&b);
        }
    };
}
name_harness!(c13_t_name_trailing, b"Noise_NN_25519_AESGCM_SHA512?");

/// Modifier tokens as templates with symbolic holes: repeated / displaced prefixes, digit positions, near-misses of
/// "fallback". Concrete skeletons keep the string searchers concrete (a fully symbolic token under a changed parser can
/// time out, which is inconclusive rather than a verdict).
macro_rules! modifier_template {
    ($name:ident, $tmpl:expr) => {
        #[kani::proof]
        #[kani::unwind(12)]
        pub fn $name() {
            const T: &[u8] = $tmpl;
            let mut b = [0u8; T.len()];
            let mut i = 0;
            while i < T.len() {
                b[i] = if T[i] == b'?' { hole() } else { T[i] };
                kani::assume(b[i] != b'+');
                i += 1;
            }
            let s = unsafe { core::str::from_utf8_unchecked(&b) };
            let r: Result<HandshakeModifier, Error> = s.parse();
            let want = grammar::modifier(&b);
            kani::cover!(true, "C13 modifier template reached");
            assert!(r.is_ok() == want.is_some(), "C13: modifier token accepted iff the grammar accepts it");
            assert!(r.is_ok() || is_pattern_err(&r), "C13: rejection must be a pattern error");
            match (r, want) {
                (Ok(HandshakeModifier::Psk(a)), Some(grammar::Modifier::Psk(c))) => assert!(a == c, "C13: psk index"),
                (Ok(HandshakeModifier::Fallback), Some(grammar::Modifier::Fallback)) => {},
                (Ok(_), _) => assert!(false, "C13: modifier component differs from the named one"),
                _ => {},
            }
        }
    };
}
modifier_template!(c13_q_modtmpl_psk_digit, b"psk?");
modifier_template!(c13_q_modtmpl_psk_two, b"psk??");
modifier_template!(c13_q_modtmpl_pskpsk, b"pskpsk?");
modifier_template!(c13_q_modtmpl_psk_then_text, b"psk?psk");
modifier_template!(c13_q_modtmpl_fallback_last, b"fallbac?");
modifier_template!(c13_q_modtmpl_fallback_first, b"?allback");
modifier_template!(c13_t_modtmpl_psk_three, b"psk???");
modifier_template!(c13_t_modtmpl_ppsk, b"?psk1");

/// Modifier LIST templates (duplicate detection across non-adjacent positions, empty segments).
macro_rules! modlist_template {
    ($name:ident, $tmpl:expr) => {
        #[kani::proof]
        #[kani::unwind(19)]
        #[kani::stub(core::slice::memchr::memchr, naive_memchr)]
        pub fn $name() {
            const T: &[u8] = $tmpl;
            let mut b = [0u8; T.len()];
            let mut i = 0;
            while i < T.len() {
                b[i] = if T[i] == b'?' { hole() } else { T[i] };
                i += 1;
            }
            // holes are not separators here (the split points stay concrete; separator holes have their own template)
            let mut i = 0;
            while i < T.len() {
                if T[i] == b'?' && T.len() != 9 {
                    kani::assume(b[i] != b'+');
                }
                i += 1;
            }
            let s = unsafe { core::str::from_utf8_unchecked(&b) };
            let r: Result<HandshakeModifierList, Error> = s.parse();
            let want = grammar::modifiers(&b);
            kani::cover!(true, "C13 modifier list template reached");
            assert!(r.is_ok() == want.is_some(), "C13: modifier list accepted iff the grammar accepts it (non-duplicate, '+'-separated)");
            assert!(r.is_ok() || is_pattern_err(&r), "C13: rejection must be a pattern error");
            if let (Ok(l), Some((w, n))) = (&r, &want) {
                assert!(same_mods(&l.list, w, *n), "C13: parsed modifiers differ from the named ones");
            }
        }
    };
}
modlist_template!(c13_t_modlist_tmpl_aba, b"psk1+psk2+psk?");

/// Whole names WITHOUT modifiers (the handshake field then never reaches the '+'-splitting machinery) and with holes
/// that are not separators: the five-way split stays concrete, the per-field decisions are symbolic. Checks
/// acceptance, that `name` is preserved verbatim and that the components are the named ones.
macro_rules! plain_name_harness {
    ($name:ident, $tmpl:expr) => {
        #[kani::proof]
        #[kani::unwind(40)]
        #[kani::stub(core::slice::memchr::memchr, naive_memchr)]
        pub fn $name() {
            const T: &[u8] = $tmpl;
            let mut b = [0u8; T.len()];
            let mut i = 0;
            while i < T.len() {
                b[i] = if T[i] == b'?' { hole() } else { T[i] };
                if T[i] == b'?' {
                    kani::assume(b[i] != b'_' && b[i] != b'+');
                }
                i += 1;
            }
            check_name(&b);
        }
    };
}
plain_name_harness!(c13_t_plain_name_hash, b"Noise_NN_25519_AESGCM_SHA25?");

/// List-level logic (duplicates at non-adjacent positions, '+' structure) cannot be decided with symbolic bytes
/// (see above: minutes to out-of-memory). These are CONCRETE list shapes run through the real parser and the
/// reference recogniser inside one query with no symbolic variable - a regression-style complement, not part of the
/// bounded "for all strings up to N bytes" claim.
#[kani::proof]
#[kani::unwind(19)]
#[kani::stub(core::slice::memchr::memchr, naive_memchr)]
pub fn c13_t_modlist_concrete_shapes() {
    const SHAPES: [&[u8]; 8] = [
        b"psk1+psk2+psk1",
        b"psk1+fallback+psk1",
        b"psk0+psk2+psk3",
        b"fallback+psk1",
        b"psk1+psk1",
        b"psk1++psk2",
        b"+psk1",
        b"psk1+",
    ];
    let mut k = 0;
    while k < 8 {
        let b = SHAPES[k];
        let s = unsafe { core::str::from_utf8_unchecked(b) };
        let r: Result<HandshakeModifierList, Error> = s.parse();
        let want = grammar::modifiers(b);
        assert!(r.is_ok() == want.is_some(), "C13: modifier list (concrete shape) accepted iff the grammar accepts it");
        assert!(r.is_ok() || is_pattern_err(&r), "C13: rejection must be a pattern error");
        if let (Ok(l), Some((w, n))) = (&r, &want) {
            assert!(same_mods(&l.list, w, *n), "C13: parsed modifiers differ from the named ones");
        }
        k += 1;
    }
    kani::cover!(true, "C13 concrete list shapes reached");
}
