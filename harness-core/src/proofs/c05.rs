//! C05 — stateful transport delivers in order, exactly once; rejections change nothing.
//! The one-step harness (arbitrary receiving nonce, arbitrary delivered bytes) is shared with C04; since it starts
//! from an arbitrary state it is the induction step for delivery schedules of any length. A bounded 3-delivery
//! schedule cross-checks the induction argument end to end.
#![allow(static_mut_refs)]
use super::c04::deliver;
use crate::stubs::*;
use snow::params::HandshakePattern;
use snow::verif::MAXDHLEN;
use snow::TransportState;

#[kani::proof]
#[kani::unwind(42)]
pub fn c05_q_one_delivery_rx_responder() {
    deliver(false, false);
}

#[kani::proof]
#[kani::unwind(42)]
pub fn c05_q_one_delivery_rx_initiator() {
    deliver(false, true);
}

/// Sender writes messages 0,1,2 from a fresh session; three deliveries, each a symbolic choice among
/// {message 0, 1, 2, garbage}, optionally preceded by an explicit receiving-nonce setting.
#[kani::proof]
#[kani::unwind(42)]
pub fn c05_q_schedule3() {
    let k1: [u8; 32] = kani::any();
    let k2: [u8; 32] = kani::any();
    unsafe {
        CKEY[1] = k1;
        CKEY[2] = k2;
        CKEY[4] = k1;
        CKEY[5] = k2;
    }
    let mut tx = TransportState::verif_from_parts(Box::new(ICipher::<1>), 0, Box::new(ICipher::<2>), 0, HandshakePattern::NN, 4, [0u8; MAXDHLEN], false, true);
    let mut rx = TransportState::verif_from_parts(Box::new(ICipher::<4>), 0, Box::new(ICipher::<5>), 0, HandshakePattern::NN, 4, [0u8; MAXDHLEN], false, false);
    // NB: separate arrays, not [[u8; 18]; 3]: a slice taken from a row of a nested array and later read back through a
    // symbolic row index was mis-modelled by CBMC 6.11 (reads returned the initial zeros; the native replay diverged)
    let p0: [u8; 2] = kani::any();
    let p1: [u8; 2] = kani::any();
    let p2: [u8; 2] = kani::any();
    let mut m0 = [0u8; 18];
    let mut m1 = [0u8; 18];
    let mut m2 = [0u8; 18];
    assert!(tx.write_message(&p0, &mut m0) == Ok(18) && tx.sending_nonce() == 1, "C05: sender numbering");
    assert!(tx.write_message(&p1, &mut m1) == Ok(18) && tx.sending_nonce() == 2, "C05: sender numbering");
    assert!(tx.write_message(&p2, &mut m2) == Ok(18) && tx.sending_nonce() == 3, "C05: sender numbering");
    let garbage: [u8; 18] = kani::any();
    kani::assume(garbage != m0 && garbage != m1 && garbage != m2);
    let mut expected: u64 = 0;
    let mut step = 0;
    while step < 3 {
        let set: bool = kani::any();
        if set {
            let x: u64 = kani::any();
            kani::assume(x <= 3);
            rx.set_receiving_nonce(x);
            expected = x;
        }
        let choice: u8 = kani::any();
        kani::assume(choice < 4);
        let mut out = [0u8; 2];
        let (msg, pl) = match choice {
            0 => (&m0, &p0),
            1 => (&m1, &p1),
            2 => (&m2, &p2),
            _ => (&garbage, &p0),
        };
        let r = rx.read_message(msg, &mut out);
        if choice < 3 && (choice as u64) == expected {
            assert!(r == Ok(2), "C05: the next not-yet-accepted message must be accepted");
            assert!(out == *pl, "C05: payload of the accepted message");
            expected += 1;
        } else {
            assert!(r.is_err(), "C05: out-of-order, duplicate or garbage delivery accepted");
        }
        assert!(rx.receiving_nonce() == expected, "C05: receiving nonce after a delivery");
        step += 1;
    }
    kani::cover!(expected == 3, "C05 schedule3: all three delivered reachable");
}
