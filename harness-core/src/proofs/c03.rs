//! C03 — handshake transcript integrity.
//!  (1) reader conformance on ARBITRARY bytes: a fully symbolic message of symbolic length is given to the real
//!      `read_message` in the state the specification reaches before message k; accept/reject, payload and the
//!      full post-state must equal the specification's ReadMessage on the same bytes (this is what catches "stopped
//!      hashing a cleartext field", "AD is not h", "length check off by one");
//!  (2) any alteration confined to the encrypted part of a message (every byte from the first encrypted field on:
//!      bit flips, truncation, extension) is rejected by the receiving read itself, with the ideal AEAD
//!      (no toy forgeries), without returning a payload and without changing the receiver.
//!  Assumed, not decided: that with a collision-resistant hash and an unforgeable AEAD the alteration of a
//!  *cleartext* field is caught by the next authenticated field (Noise's design argument).
#![allow(static_mut_refs)]
use super::common::*;
use crate::glue::*;
use crate::prims::Toy;
use crate::rm::*;
use crate::stubs::*;
use snow::verif;

type P = Toy<8, 4, 4>;

pub fn arbitrary_read(pat: Pat, psk_mask: u16, k: usize) {
    let pro: [u8; 2] = kani::any();
    let mut pair = rm_pair::<P>(pat, psk_mask, NAME.as_bytes(), &pro);
    rm_advance::<P>(&mut pair, k);
    let mut rmr = if k % 2 == 0 { pair.r } else { pair.i };
    let mut hs = snow_from_rm_a::<8, 4, 4>(&rmr, NAME, false);
    let (fixed, _) = HsOps::<P>::overhead(pat, psk_mask, k);
    let msg: [u8; MSGBUF] = kani::any();
    let mlen: usize = kani::any();
    kani::assume(mlen <= fixed + 2);
    let mut out_s = [0u8; 8];
    let mut out_r = [0u8; 8];
    let r = hs.read_message(&msg[..mlen], &mut out_s);
    let len_ok = mlen >= fixed;
    kani::cover!(r.is_ok(), "C03 arbitrary message accepted reachable (toy tags are forgeable by the solver)");
    if !len_ok {
        assert!(r.is_err(), "C03: a message shorter than its fixed fields was accepted");
        return;
    }
    let mut ok = true;
    let n = HsOps::<P>::read(&mut rmr, &msg[..mlen], &mut out_r, &mut ok);
    assert!(r.is_ok() == ok, "C03: read_message accepts exactly the byte strings the specification's ReadMessage accepts");
    if let Ok(ns) = r {
        assert!(ns == n, "C03: payload length differs from the specification's");
        let mut j = 0;
        while j < 2 {
            if j < n {
                assert!(out_s[j] == out_r[j], "C03: payload differs from the specification's");
            }
            j += 1;
        }
        let snap = verif::snapshot(&hs);
        assert!(diff_state::<P>(&snap, EP_A, &rmr) == 0, "C03: post-read state differs from the specification's");
    }
}

macro_rules! arb_harness {
    ($name:ident, $pat:expr, $mask:expr, $k:expr) => {
        #[kani::proof]
        #[kani::unwind(50)]
        pub fn $name() {
            arbitrary_read($pat, $mask, $k);
        }
    };
}
arb_harness!(c03_q_arb_nn_r0, Pat::NN, 0, 0);
arb_harness!(c03_q_arb_nn_r1, Pat::NN, 0, 1);
arb_harness!(c03_q_arb_xx_r1, Pat::XX, 0, 1);
arb_harness!(c03_t_arb_xx_r2, Pat::XX, 0, 2);
arb_harness!(c03_t_arb_ik_r0, Pat::IK, 0, 0);
arb_harness!(c03_t_arb_nnpsk0_r0, Pat::NN, 1, 0);
arb_harness!(c03_t_arb_n_r0, Pat::N, 0, 0);

/// (2) genuine message written by a real endpoint through the ideal AEAD; the delivered bytes differ from it only
/// from the first encrypted field on (symbolic byte position and value, or a symbolic truncation / 1-byte extension).
pub fn altered_encrypted_part(pat: Pat, psk_mask: u16, k: usize, kind: u8) {
    altered_encrypted_part_opt(pat, psk_mask, k, kind, false)
}

/// `check_rs` (used by C17): whatever the receiver reports as the remote static key after the rejected message is the
/// sender's true public key - never bytes of a message that was not read successfully.
pub fn altered_encrypted_part_opt(pat: Pat, psk_mask: u16, k: usize, kind: u8, check_rs: bool) {
    // the alteration is what is symbolic here (position, value, truncation length); keys are concrete, which keeps
    // the two real endpoints cheap and changes nothing for the ideal AEAD (it compares, it does not compute)
    unsafe {
        CONCRETE_INPUTS = true;
    }
    let pro: [u8; 2] = [3, 4];
    let mut pair = rm_pair::<P>(pat, psk_mask, NAME.as_bytes(), &pro);
    rm_advance::<P>(&mut pair, k);
    let (rmw, rmr) = if k % 2 == 0 { (pair.i, pair.r) } else { (pair.r, pair.i) };
    let mut w = snow_from_rm_ideal_b::<4, 4>(&rmw, NAME);
    let mut r = snow_from_rm_ideal_a::<4, 4>(&rmr, NAME);
    let e: [u8; 8] = sym8();
    set_rng_slot(0, &e);
    let payload: [u8; 2] = kani::any();
    let mut m = [0u8; MSGBUF];
    let n = w.write_message(&payload, &mut m);
    assert!(n.is_ok(), "C02: an honest handshake write failed");
    let n = n.unwrap_or(0);
    let enc = match HsOps::<P>::first_encrypted_offset(pat, psk_mask, k) {
        Some(o) => o,
        None => {
            kani::assume(false);
            0
        },
    };
    let mut d = m;
    let mut dlen = n;
    match kind {
        0 => {
            let j: usize = kani::any();
            let delta: u8 = kani::any();
            kani::assume(j >= enc && j < n && delta != 0);
            d[j] ^= delta;
        },
        1 => {
            dlen = kani::any();
            kani::assume(dlen >= enc && dlen < n);
        },
        _ => {
            dlen = n + 1;
        },
    }
    let s0 = verif::snapshot(&r);
    let mut out = [0xEEu8; 8];
    // the receiver offers a payload buffer of exactly the honest payload's size (2 bytes) or a roomy one
    let exact: bool = kani::any();
    let res = if exact { r.read_message(&d[..dlen], &mut out[..2]) } else { r.read_message(&d[..dlen], &mut out) };
    kani::cover!(true, "C03 alteration harness reached");
    assert!(res.is_err(), "C03: an alteration inside the encrypted part of a handshake message was accepted");
    let s1 = verif::snapshot(&r);
    assert!(s1.pattern_position == s0.pattern_position && s1.my_turn == s0.my_turn && !r.is_handshake_finished() || s0.pattern_position == pat.nmsgs(), "C03: a rejected message advanced the handshake");
    // nothing of the rejected message's payload is handed out (C19) - the buffer is as it was
    assert!(out[0] == 0xEE && out[1] == 0xEE, "C03: payload bytes written for a rejected message");
    // (that the genuine message is still accepted afterwards is C07's retry harnesses)
    if check_rs {
        if let Some(g) = r.get_remote_static() {
            assert!(g.len() == 4, "C17: reported remote static key has the wrong length");
            let mut j = 0;
            while j < 4 {
                assert!(g[j] == rmw.s_pub[j], "C17: after a rejected message the reported remote static key is not the peer's public key");
                j += 1;
            }
        } else {
            assert!(!s0.rs_on, "C17: a remote static key known before the rejected message is no longer reported");
        }
    }
}

macro_rules! alt_harness {
    ($name:ident, $pat:expr, $mask:expr, $k:expr, $kind:expr) => {
        #[kani::proof]
        #[kani::unwind(50)]
        pub fn $name() {
            altered_encrypted_part($pat, $mask, $k, $kind);
        }
    };
}
// kind 0 = one byte changed (symbolic position/value), 1 = truncated (symbolic length), 2 = one byte appended
alt_harness!(c03_q_alt_nn_k1_flip, Pat::NN, 0, 1, 0);
alt_harness!(c03_q_alt_xx_k1_flip, Pat::XX, 0, 1, 0);
alt_harness!(c03_q_alt_xx_k1_trunc, Pat::XX, 0, 1, 1);
alt_harness!(c03_q_alt_n_k0_ext, Pat::N, 0, 0, 2);
alt_harness!(c03_t_alt_xx_k2_flip, Pat::XX, 0, 2, 0);
alt_harness!(c03_t_alt_ik_k0_flip, Pat::IK, 0, 0, 0);
alt_harness!(c03_t_alt_ik_k0_trunc, Pat::IK, 0, 0, 1);
alt_harness!(c03_t_alt_nnpsk0_k0_flip, Pat::NN, 1, 0, 0);
alt_harness!(c03_t_alt_nn_k1_trunc, Pat::NN, 0, 1, 1);
