//! C11 — turn / phase / one-way state machine. One API call, chosen symbolically among valid and invalid writes,
//! reads of authentic / rejected / oversize messages and both conversions, from EVERY reachable (pattern,
//! position, role) state (placed through the literal hook): the result variant and the turn / finished / role
//! indicators must be those of the reference automaton, and rejected calls must leave them unchanged. One step
//! from every reachable state is the induction step for call sequences of any length. (The one-way rule of the
//! transport phase is asserted by C09's harnesses for both transport types.)
#![allow(static_mut_refs)]
use super::common::*;
use crate::glue::*;
use crate::prims::Toy;
use crate::rm::*;
use crate::stubs::*;
use snow::error::StateProblem;
use snow::Error;

type P = Toy<8, 4, 4>;

fn err_of(e: RmErr) -> Error {
    match e {
        RmErr::NotTurnToWrite => Error::State(StateProblem::NotTurnToWrite),
        RmErr::NotTurnToRead => Error::State(StateProblem::NotTurnToRead),
        RmErr::Finished => Error::State(StateProblem::HandshakeAlreadyFinished),
        RmErr::NotFinished => Error::State(StateProblem::HandshakeNotFinished),
        RmErr::MissingPsk => Error::State(StateProblem::MissingPsk),
        RmErr::Decrypt => Error::Decrypt,
        _ => Error::Input,
    }
}

pub fn one_call(pat: Pat, psk_mask: u16, initiator: bool, k: usize, psk_missing: bool) {
    unsafe {
        CONCRETE_INPUTS = true; // only flags matter here; concrete crypto inputs keep the prefix cheap
    }
    let pro = [0u8; 2];
    let mut pair = rm_pair::<P>(pat, psk_mask, NAME.as_bytes(), &pro);
    rm_advance::<P>(&mut pair, k);
    let mut rm = if initiator { pair.i } else { pair.r };
    if psk_missing {
        rm.psk_set = 0;
    }
    let mut hs = snow_from_rm_oracle::<4, 4>(&rm, NAME, false);
    let n = pat.nmsgs();
    let my_turn = HsOps::<P>::my_turn(&rm);
    let finished = k >= n;
    assert!(hs.is_my_turn() == my_turn && hs.is_handshake_finished() == finished && hs.is_initiator() == initiator, "C11: indicators of the reached state");
    let choice: u8 = kani::any();
    kani::assume(choice < 7);
    kani::cover!(choice == 6, "C11 one_call reached");
    let verdict = choice != 3;
    unsafe {
        O_DEC_VERDICT[0] = verdict;
    }
    let mut buf = [0u8; 64];
    let mut out = [0u8; 8];
    static BIGMSG: [u8; 65536] = [0u8; 65536];
    let (fixed, enc) = if finished { (0, false) } else { HsOps::<P>::overhead(pat, psk_mask, k) };
    let payload = [1u8, 2u8];
    // (result, expected result, whether the call is expected to advance the handshake)
    let mut advanced = false;
    match choice {
        0 | 1 => {
            let cap = if choice == 0 { 64 } else { 0 };
            let r = hs.write_message(&payload, &mut buf[..cap]);
            match HsOps::<P>::precheck_write(&rm) {
                // after the last message both "already finished" and "not your turn" describe the call
                // a missing PSK that is only needed late in the message: snow refuses at the first token that cannot be
                // processed, so an empty buffer is reported first (both refusals describe the call, C11 fixes no order)
                Some(e) => assert!(
                    r == Err(err_of(e))
                        || (finished && r == Err(Error::State(StateProblem::HandshakeAlreadyFinished)))
                        || (psk_missing && choice == 1 && matches!(e, RmErr::MissingPsk) && r == Err(Error::Input)),
                    "C11: wrong result for an out-of-phase / keyless write"
                ),
                None => {
                    if choice == 0 {
                        assert!(r == Ok(fixed + 2), "C11: a legitimate write was refused");
                        advanced = true;
                    } else {
                        assert!(r == Err(Error::Input), "C11: write into an empty buffer must fail with the input error");
                    }
                },
            }
        },
        2 | 3 => {
            let r = hs.read_message(&buf[..fixed + 2], &mut out);
            match HsOps::<P>::precheck_read(&rm, fixed + 2).or(if HsOps::<P>::precheck_read(&rm, 0).is_none() { HsOps::<P>::precheck_psk(&rm) } else { None }) {
                // likewise: a field the cipher rejects before the psk token is reached is reported first
                Some(e) => assert!(
                    r == Err(err_of(e))
                        || (finished && r == Err(Error::State(StateProblem::HandshakeAlreadyFinished)))
                        || (psk_missing && !verdict && matches!(e, RmErr::MissingPsk) && r == Err(Error::Decrypt)),
                    "C11: wrong result for an out-of-phase / keyless read"
                ),
                None => {
                    // a rejecting cipher only matters if this message has an encrypted field
                    let any_enc = enc || unsafe { O_DEC_CALLS[0] } > 0;
                    if verdict || !any_enc {
                        assert!(r == Ok(2), "C11: a legitimate read was refused");
                        advanced = true;
                    } else {
                        assert!(r == Err(Error::Decrypt), "C11: a message the cipher rejects must yield the decrypt error");
                    }
                },
            }
        },
        4 => {
            let r = hs.read_message(&BIGMSG, &mut out);
            // in phase: the input error; out of phase both the input error and the state error describe the call
            match HsOps::<P>::precheck_read(&rm, 0) {
                None => assert!(r == Err(Error::Input), "C11: a message longer than 65535 bytes must be refused with the input error"),
                Some(e) => assert!(r == Err(Error::Input) || r == Err(err_of(e)), "C11: an oversize out-of-phase read must be refused with the input or the state error"),
            }
        },
        5 => {
            // both public entry points of the conversion: the method and the `TryFrom<HandshakeState>` impl
            let via_tryfrom: bool = kani::any();
            let r = if via_tryfrom { snow::TransportState::try_from(hs) } else { hs.into_transport_mode() };
            if finished {
                assert!(r.is_ok(), "C11: conversion refused after the last message");
                if let Ok(mut t) = r {
                    assert!(t.is_initiator() == initiator, "C11: role after conversion");
                    let w = t.write_message(&payload, &mut buf);
                    let rd = t.read_message(&buf[..18], &mut out);
                    if pat.is_oneway() && !initiator {
                        assert!(w == Err(Error::State(StateProblem::OneWay)), "C11: the responder of a one-way pattern wrote a transport message");
                    } else {
                        assert!(w == Ok(18), "C11: a legitimate transport write was refused after conversion");
                    }
                    if pat.is_oneway() && initiator {
                        assert!(rd == Err(Error::State(StateProblem::OneWay)), "C11: the initiator of a one-way pattern read a transport message");
                    }
                    core::mem::forget(t);
                }
            } else {
                assert!(matches!(r, Err(Error::State(StateProblem::HandshakeNotFinished))), "C11: conversion before the last message must report HandshakeNotFinished");
            }
            return;
        },
        _ => {
            let via_tryfrom: bool = kani::any();
            let r = if via_tryfrom { snow::StatelessTransportState::try_from(hs) } else { hs.into_stateless_transport_mode() };
            if finished {
                assert!(r.is_ok(), "C11: stateless conversion refused after the last message");
                if let Ok(t) = r {
                    assert!(t.is_initiator() == initiator, "C11: role after conversion");
                    let w = t.write_message(7, &payload, &mut buf);
                    let rd = t.read_message(7, &buf[..18], &mut out);
                    if pat.is_oneway() && !initiator {
                        assert!(w == Err(Error::State(StateProblem::OneWay)), "C11: the responder of a one-way pattern wrote a stateless transport message");
                    } else {
                        assert!(w == Ok(18), "C11: a legitimate stateless transport write was refused after conversion");
                    }
                    if pat.is_oneway() && initiator {
                        assert!(rd == Err(Error::State(StateProblem::OneWay)), "C11: the initiator of a one-way pattern read a stateless transport message");
                    }
                    core::mem::forget(t);
                }
            } else {
                assert!(matches!(r, Err(Error::State(StateProblem::HandshakeNotFinished))), "C11: stateless conversion before the last message must report HandshakeNotFinished");
            }
            return;
        },
    }
    let (turn2, fin2) = if advanced { (!my_turn, k + 1 >= n) } else { (my_turn, finished) };
    assert!(hs.is_my_turn() == turn2 && hs.is_handshake_finished() == fin2 && hs.is_initiator() == initiator, "C11: turn / finished indicators after the call differ from the pattern's automaton");
}

macro_rules! call_harness {
    ($name:ident, $pat:expr, $mask:expr, $ini:expr, $k:expr) => {
        call_harness!($name, $pat, $mask, $ini, $k, false);
    };
    ($name:ident, $pat:expr, $mask:expr, $ini:expr, $k:expr, $missing:expr) => {
        #[kani::proof]
        #[kani::unwind(34)]
        pub fn $name() {
            one_call($pat, $mask, $ini, $k, $missing);
        }
    };
}
call_harness!(c11_q_n_i_k0, Pat::N, 0, true, 0);
call_harness!(c11_q_n_r_k0, Pat::N, 0, false, 0);
call_harness!(c11_q_n_i_k1, Pat::N, 0, true, 1);
call_harness!(c11_q_n_r_k1, Pat::N, 0, false, 1);
call_harness!(c11_t_x_i_k0, Pat::X, 0, true, 0);
call_harness!(c11_t_x_r_k0, Pat::X, 0, false, 0);
call_harness!(c11_t_x_i_k1, Pat::X, 0, true, 1);
call_harness!(c11_t_x_r_k1, Pat::X, 0, false, 1);
call_harness!(c11_t_k_i_k0, Pat::K, 0, true, 0);
call_harness!(c11_t_k_r_k0, Pat::K, 0, false, 0);
call_harness!(c11_t_k_i_k1, Pat::K, 0, true, 1);
call_harness!(c11_t_k_r_k1, Pat::K, 0, false, 1);
call_harness!(c11_q_nn_i_k0, Pat::NN, 0, true, 0);
call_harness!(c11_q_nn_r_k0, Pat::NN, 0, false, 0);
call_harness!(c11_q_nn_i_k1, Pat::NN, 0, true, 1);
call_harness!(c11_q_nn_r_k1, Pat::NN, 0, false, 1);
call_harness!(c11_q_nn_i_k2, Pat::NN, 0, true, 2);
call_harness!(c11_q_nn_r_k2, Pat::NN, 0, false, 2);
call_harness!(c11_t_nk_i_k0, Pat::NK, 0, true, 0);
call_harness!(c11_t_nk_r_k0, Pat::NK, 0, false, 0);
call_harness!(c11_t_nk_i_k1, Pat::NK, 0, true, 1);
call_harness!(c11_t_nk_r_k1, Pat::NK, 0, false, 1);
call_harness!(c11_t_nk_i_k2, Pat::NK, 0, true, 2);
call_harness!(c11_t_nk_r_k2, Pat::NK, 0, false, 2);
call_harness!(c11_t_nx_i_k0, Pat::NX, 0, true, 0);
call_harness!(c11_t_nx_r_k0, Pat::NX, 0, false, 0);
call_harness!(c11_t_nx_i_k1, Pat::NX, 0, true, 1);
call_harness!(c11_t_nx_r_k1, Pat::NX, 0, false, 1);
call_harness!(c11_t_nx_i_k2, Pat::NX, 0, true, 2);
call_harness!(c11_t_nx_r_k2, Pat::NX, 0, false, 2);
call_harness!(c11_t_xn_i_k0, Pat::XN, 0, true, 0);
call_harness!(c11_t_xn_r_k0, Pat::XN, 0, false, 0);
call_harness!(c11_t_xn_i_k1, Pat::XN, 0, true, 1);
call_harness!(c11_t_xn_r_k1, Pat::XN, 0, false, 1);
call_harness!(c11_t_xn_i_k2, Pat::XN, 0, true, 2);
call_harness!(c11_t_xn_r_k2, Pat::XN, 0, false, 2);
call_harness!(c11_t_xn_i_k3, Pat::XN, 0, true, 3);
call_harness!(c11_t_xn_r_k3, Pat::XN, 0, false, 3);
call_harness!(c11_t_xk_i_k0, Pat::XK, 0, true, 0);
call_harness!(c11_t_xk_r_k0, Pat::XK, 0, false, 0);
call_harness!(c11_t_xk_i_k1, Pat::XK, 0, true, 1);
call_harness!(c11_t_xk_r_k1, Pat::XK, 0, false, 1);
call_harness!(c11_t_xk_i_k2, Pat::XK, 0, true, 2);
call_harness!(c11_t_xk_r_k2, Pat::XK, 0, false, 2);
call_harness!(c11_t_xk_i_k3, Pat::XK, 0, true, 3);
call_harness!(c11_t_xk_r_k3, Pat::XK, 0, false, 3);
call_harness!(c11_q_xx_i_k0, Pat::XX, 0, true, 0);
call_harness!(c11_q_xx_r_k0, Pat::XX, 0, false, 0);
call_harness!(c11_q_xx_i_k1, Pat::XX, 0, true, 1);
call_harness!(c11_q_xx_r_k1, Pat::XX, 0, false, 1);
call_harness!(c11_q_xx_i_k2, Pat::XX, 0, true, 2);
call_harness!(c11_q_xx_r_k2, Pat::XX, 0, false, 2);
call_harness!(c11_q_xx_i_k3, Pat::XX, 0, true, 3);
call_harness!(c11_q_xx_r_k3, Pat::XX, 0, false, 3);
call_harness!(c11_t_kn_i_k0, Pat::KN, 0, true, 0);
call_harness!(c11_t_kn_r_k0, Pat::KN, 0, false, 0);
call_harness!(c11_t_kn_i_k1, Pat::KN, 0, true, 1);
call_harness!(c11_t_kn_r_k1, Pat::KN, 0, false, 1);
call_harness!(c11_t_kn_i_k2, Pat::KN, 0, true, 2);
call_harness!(c11_t_kn_r_k2, Pat::KN, 0, false, 2);
call_harness!(c11_t_kk_i_k0, Pat::KK, 0, true, 0);
call_harness!(c11_t_kk_r_k0, Pat::KK, 0, false, 0);
call_harness!(c11_t_kk_i_k1, Pat::KK, 0, true, 1);
call_harness!(c11_t_kk_r_k1, Pat::KK, 0, false, 1);
call_harness!(c11_t_kk_i_k2, Pat::KK, 0, true, 2);
call_harness!(c11_t_kk_r_k2, Pat::KK, 0, false, 2);
call_harness!(c11_t_kx_i_k0, Pat::KX, 0, true, 0);
call_harness!(c11_t_kx_r_k0, Pat::KX, 0, false, 0);
call_harness!(c11_t_kx_i_k1, Pat::KX, 0, true, 1);
call_harness!(c11_t_kx_r_k1, Pat::KX, 0, false, 1);
call_harness!(c11_t_kx_i_k2, Pat::KX, 0, true, 2);
call_harness!(c11_t_kx_r_k2, Pat::KX, 0, false, 2);
call_harness!(c11_t_in_i_k0, Pat::IN, 0, true, 0);
call_harness!(c11_t_in_r_k0, Pat::IN, 0, false, 0);
call_harness!(c11_t_in_i_k1, Pat::IN, 0, true, 1);
call_harness!(c11_t_in_r_k1, Pat::IN, 0, false, 1);
call_harness!(c11_t_in_i_k2, Pat::IN, 0, true, 2);
call_harness!(c11_t_in_r_k2, Pat::IN, 0, false, 2);
call_harness!(c11_t_ik_i_k0, Pat::IK, 0, true, 0);
call_harness!(c11_t_ik_r_k0, Pat::IK, 0, false, 0);
call_harness!(c11_t_ik_i_k1, Pat::IK, 0, true, 1);
call_harness!(c11_t_ik_r_k1, Pat::IK, 0, false, 1);
call_harness!(c11_t_ik_i_k2, Pat::IK, 0, true, 2);
call_harness!(c11_t_ik_r_k2, Pat::IK, 0, false, 2);
call_harness!(c11_t_ix_i_k0, Pat::IX, 0, true, 0);
call_harness!(c11_t_ix_r_k0, Pat::IX, 0, false, 0);
call_harness!(c11_t_ix_i_k1, Pat::IX, 0, true, 1);
call_harness!(c11_t_ix_r_k1, Pat::IX, 0, false, 1);
call_harness!(c11_t_ix_i_k2, Pat::IX, 0, true, 2);
call_harness!(c11_t_ix_r_k2, Pat::IX, 0, false, 2);
call_harness!(c11_t_nk1_i_k0, Pat::NK1, 0, true, 0);
call_harness!(c11_t_nk1_r_k0, Pat::NK1, 0, false, 0);
call_harness!(c11_t_nk1_i_k1, Pat::NK1, 0, true, 1);
call_harness!(c11_t_nk1_r_k1, Pat::NK1, 0, false, 1);
call_harness!(c11_t_nk1_i_k2, Pat::NK1, 0, true, 2);
call_harness!(c11_t_nk1_r_k2, Pat::NK1, 0, false, 2);
call_harness!(c11_t_nx1_i_k0, Pat::NX1, 0, true, 0);
call_harness!(c11_t_nx1_r_k0, Pat::NX1, 0, false, 0);
call_harness!(c11_t_nx1_i_k1, Pat::NX1, 0, true, 1);
call_harness!(c11_t_nx1_r_k1, Pat::NX1, 0, false, 1);
call_harness!(c11_t_nx1_i_k2, Pat::NX1, 0, true, 2);
call_harness!(c11_t_nx1_r_k2, Pat::NX1, 0, false, 2);
call_harness!(c11_t_nx1_i_k3, Pat::NX1, 0, true, 3);
call_harness!(c11_t_nx1_r_k3, Pat::NX1, 0, false, 3);
call_harness!(c11_t_x1n_i_k0, Pat::X1N, 0, true, 0);
call_harness!(c11_t_x1n_r_k0, Pat::X1N, 0, false, 0);
call_harness!(c11_t_x1n_i_k1, Pat::X1N, 0, true, 1);
call_harness!(c11_t_x1n_r_k1, Pat::X1N, 0, false, 1);
call_harness!(c11_t_x1n_i_k2, Pat::X1N, 0, true, 2);
call_harness!(c11_t_x1n_r_k2, Pat::X1N, 0, false, 2);
call_harness!(c11_t_x1n_i_k3, Pat::X1N, 0, true, 3);
call_harness!(c11_t_x1n_r_k3, Pat::X1N, 0, false, 3);
call_harness!(c11_t_x1n_i_k4, Pat::X1N, 0, true, 4);
call_harness!(c11_t_x1n_r_k4, Pat::X1N, 0, false, 4);
call_harness!(c11_t_x1k_i_k0, Pat::X1K, 0, true, 0);
call_harness!(c11_t_x1k_r_k0, Pat::X1K, 0, false, 0);
call_harness!(c11_t_x1k_i_k1, Pat::X1K, 0, true, 1);
call_harness!(c11_t_x1k_r_k1, Pat::X1K, 0, false, 1);
call_harness!(c11_t_x1k_i_k2, Pat::X1K, 0, true, 2);
call_harness!(c11_t_x1k_r_k2, Pat::X1K, 0, false, 2);
call_harness!(c11_t_x1k_i_k3, Pat::X1K, 0, true, 3);
call_harness!(c11_t_x1k_r_k3, Pat::X1K, 0, false, 3);
call_harness!(c11_t_x1k_i_k4, Pat::X1K, 0, true, 4);
call_harness!(c11_t_x1k_r_k4, Pat::X1K, 0, false, 4);
call_harness!(c11_t_xk1_i_k0, Pat::XK1, 0, true, 0);
call_harness!(c11_t_xk1_r_k0, Pat::XK1, 0, false, 0);
call_harness!(c11_t_xk1_i_k1, Pat::XK1, 0, true, 1);
call_harness!(c11_t_xk1_r_k1, Pat::XK1, 0, false, 1);
call_harness!(c11_t_xk1_i_k2, Pat::XK1, 0, true, 2);
call_harness!(c11_t_xk1_r_k2, Pat::XK1, 0, false, 2);
call_harness!(c11_t_xk1_i_k3, Pat::XK1, 0, true, 3);
call_harness!(c11_t_xk1_r_k3, Pat::XK1, 0, false, 3);
call_harness!(c11_t_x1k1_i_k0, Pat::X1K1, 0, true, 0);
call_harness!(c11_t_x1k1_r_k0, Pat::X1K1, 0, false, 0);
call_harness!(c11_t_x1k1_i_k1, Pat::X1K1, 0, true, 1);
call_harness!(c11_t_x1k1_r_k1, Pat::X1K1, 0, false, 1);
call_harness!(c11_t_x1k1_i_k2, Pat::X1K1, 0, true, 2);
call_harness!(c11_t_x1k1_r_k2, Pat::X1K1, 0, false, 2);
call_harness!(c11_t_x1k1_i_k3, Pat::X1K1, 0, true, 3);
call_harness!(c11_t_x1k1_r_k3, Pat::X1K1, 0, false, 3);
call_harness!(c11_t_x1k1_i_k4, Pat::X1K1, 0, true, 4);
call_harness!(c11_t_x1k1_r_k4, Pat::X1K1, 0, false, 4);
call_harness!(c11_t_x1x_i_k0, Pat::X1X, 0, true, 0);
call_harness!(c11_t_x1x_r_k0, Pat::X1X, 0, false, 0);
call_harness!(c11_t_x1x_i_k1, Pat::X1X, 0, true, 1);
call_harness!(c11_t_x1x_r_k1, Pat::X1X, 0, false, 1);
call_harness!(c11_t_x1x_i_k2, Pat::X1X, 0, true, 2);
call_harness!(c11_t_x1x_r_k2, Pat::X1X, 0, false, 2);
call_harness!(c11_t_x1x_i_k3, Pat::X1X, 0, true, 3);
call_harness!(c11_t_x1x_r_k3, Pat::X1X, 0, false, 3);
call_harness!(c11_t_x1x_i_k4, Pat::X1X, 0, true, 4);
call_harness!(c11_t_x1x_r_k4, Pat::X1X, 0, false, 4);
call_harness!(c11_t_xx1_i_k0, Pat::XX1, 0, true, 0);
call_harness!(c11_t_xx1_r_k0, Pat::XX1, 0, false, 0);
call_harness!(c11_t_xx1_i_k1, Pat::XX1, 0, true, 1);
call_harness!(c11_t_xx1_r_k1, Pat::XX1, 0, false, 1);
call_harness!(c11_t_xx1_i_k2, Pat::XX1, 0, true, 2);
call_harness!(c11_t_xx1_r_k2, Pat::XX1, 0, false, 2);
call_harness!(c11_t_xx1_i_k3, Pat::XX1, 0, true, 3);
call_harness!(c11_t_xx1_r_k3, Pat::XX1, 0, false, 3);
call_harness!(c11_t_x1x1_i_k0, Pat::X1X1, 0, true, 0);
call_harness!(c11_t_x1x1_r_k0, Pat::X1X1, 0, false, 0);
call_harness!(c11_t_x1x1_i_k1, Pat::X1X1, 0, true, 1);
call_harness!(c11_t_x1x1_r_k1, Pat::X1X1, 0, false, 1);
call_harness!(c11_t_x1x1_i_k2, Pat::X1X1, 0, true, 2);
call_harness!(c11_t_x1x1_r_k2, Pat::X1X1, 0, false, 2);
call_harness!(c11_t_x1x1_i_k3, Pat::X1X1, 0, true, 3);
call_harness!(c11_t_x1x1_r_k3, Pat::X1X1, 0, false, 3);
call_harness!(c11_t_x1x1_i_k4, Pat::X1X1, 0, true, 4);
call_harness!(c11_t_x1x1_r_k4, Pat::X1X1, 0, false, 4);
call_harness!(c11_t_k1n_i_k0, Pat::K1N, 0, true, 0);
call_harness!(c11_t_k1n_r_k0, Pat::K1N, 0, false, 0);
call_harness!(c11_t_k1n_i_k1, Pat::K1N, 0, true, 1);
call_harness!(c11_t_k1n_r_k1, Pat::K1N, 0, false, 1);
call_harness!(c11_t_k1n_i_k2, Pat::K1N, 0, true, 2);
call_harness!(c11_t_k1n_r_k2, Pat::K1N, 0, false, 2);
call_harness!(c11_t_k1n_i_k3, Pat::K1N, 0, true, 3);
call_harness!(c11_t_k1n_r_k3, Pat::K1N, 0, false, 3);
call_harness!(c11_t_k1k_i_k0, Pat::K1K, 0, true, 0);
call_harness!(c11_t_k1k_r_k0, Pat::K1K, 0, false, 0);
call_harness!(c11_t_k1k_i_k1, Pat::K1K, 0, true, 1);
call_harness!(c11_t_k1k_r_k1, Pat::K1K, 0, false, 1);
call_harness!(c11_t_k1k_i_k2, Pat::K1K, 0, true, 2);
call_harness!(c11_t_k1k_r_k2, Pat::K1K, 0, false, 2);
call_harness!(c11_t_k1k_i_k3, Pat::K1K, 0, true, 3);
call_harness!(c11_t_k1k_r_k3, Pat::K1K, 0, false, 3);
call_harness!(c11_t_kk1_i_k0, Pat::KK1, 0, true, 0);
call_harness!(c11_t_kk1_r_k0, Pat::KK1, 0, false, 0);
call_harness!(c11_t_kk1_i_k1, Pat::KK1, 0, true, 1);
call_harness!(c11_t_kk1_r_k1, Pat::KK1, 0, false, 1);
call_harness!(c11_t_kk1_i_k2, Pat::KK1, 0, true, 2);
call_harness!(c11_t_kk1_r_k2, Pat::KK1, 0, false, 2);
call_harness!(c11_t_k1k1_i_k0, Pat::K1K1, 0, true, 0);
call_harness!(c11_t_k1k1_r_k0, Pat::K1K1, 0, false, 0);
call_harness!(c11_t_k1k1_i_k1, Pat::K1K1, 0, true, 1);
call_harness!(c11_t_k1k1_r_k1, Pat::K1K1, 0, false, 1);
call_harness!(c11_t_k1k1_i_k2, Pat::K1K1, 0, true, 2);
call_harness!(c11_t_k1k1_r_k2, Pat::K1K1, 0, false, 2);
call_harness!(c11_t_k1k1_i_k3, Pat::K1K1, 0, true, 3);
call_harness!(c11_t_k1k1_r_k3, Pat::K1K1, 0, false, 3);
call_harness!(c11_t_k1x_i_k0, Pat::K1X, 0, true, 0);
call_harness!(c11_t_k1x_r_k0, Pat::K1X, 0, false, 0);
call_harness!(c11_t_k1x_i_k1, Pat::K1X, 0, true, 1);
call_harness!(c11_t_k1x_r_k1, Pat::K1X, 0, false, 1);
call_harness!(c11_t_k1x_i_k2, Pat::K1X, 0, true, 2);
call_harness!(c11_t_k1x_r_k2, Pat::K1X, 0, false, 2);
call_harness!(c11_t_k1x_i_k3, Pat::K1X, 0, true, 3);
call_harness!(c11_t_k1x_r_k3, Pat::K1X, 0, false, 3);
call_harness!(c11_t_kx1_i_k0, Pat::KX1, 0, true, 0);
call_harness!(c11_t_kx1_r_k0, Pat::KX1, 0, false, 0);
call_harness!(c11_t_kx1_i_k1, Pat::KX1, 0, true, 1);
call_harness!(c11_t_kx1_r_k1, Pat::KX1, 0, false, 1);
call_harness!(c11_t_kx1_i_k2, Pat::KX1, 0, true, 2);
call_harness!(c11_t_kx1_r_k2, Pat::KX1, 0, false, 2);
call_harness!(c11_t_kx1_i_k3, Pat::KX1, 0, true, 3);
call_harness!(c11_t_kx1_r_k3, Pat::KX1, 0, false, 3);
call_harness!(c11_t_k1x1_i_k0, Pat::K1X1, 0, true, 0);
call_harness!(c11_t_k1x1_r_k0, Pat::K1X1, 0, false, 0);
call_harness!(c11_t_k1x1_i_k1, Pat::K1X1, 0, true, 1);
call_harness!(c11_t_k1x1_r_k1, Pat::K1X1, 0, false, 1);
call_harness!(c11_t_k1x1_i_k2, Pat::K1X1, 0, true, 2);
call_harness!(c11_t_k1x1_r_k2, Pat::K1X1, 0, false, 2);
call_harness!(c11_t_k1x1_i_k3, Pat::K1X1, 0, true, 3);
call_harness!(c11_t_k1x1_r_k3, Pat::K1X1, 0, false, 3);
call_harness!(c11_t_i1n_i_k0, Pat::I1N, 0, true, 0);
call_harness!(c11_t_i1n_r_k0, Pat::I1N, 0, false, 0);
call_harness!(c11_t_i1n_i_k1, Pat::I1N, 0, true, 1);
call_harness!(c11_t_i1n_r_k1, Pat::I1N, 0, false, 1);
call_harness!(c11_t_i1n_i_k2, Pat::I1N, 0, true, 2);
call_harness!(c11_t_i1n_r_k2, Pat::I1N, 0, false, 2);
call_harness!(c11_t_i1n_i_k3, Pat::I1N, 0, true, 3);
call_harness!(c11_t_i1n_r_k3, Pat::I1N, 0, false, 3);
call_harness!(c11_t_i1k_i_k0, Pat::I1K, 0, true, 0);
call_harness!(c11_t_i1k_r_k0, Pat::I1K, 0, false, 0);
call_harness!(c11_t_i1k_i_k1, Pat::I1K, 0, true, 1);
call_harness!(c11_t_i1k_r_k1, Pat::I1K, 0, false, 1);
call_harness!(c11_t_i1k_i_k2, Pat::I1K, 0, true, 2);
call_harness!(c11_t_i1k_r_k2, Pat::I1K, 0, false, 2);
call_harness!(c11_t_i1k_i_k3, Pat::I1K, 0, true, 3);
call_harness!(c11_t_i1k_r_k3, Pat::I1K, 0, false, 3);
call_harness!(c11_t_ik1_i_k0, Pat::IK1, 0, true, 0);
call_harness!(c11_t_ik1_r_k0, Pat::IK1, 0, false, 0);
call_harness!(c11_t_ik1_i_k1, Pat::IK1, 0, true, 1);
call_harness!(c11_t_ik1_r_k1, Pat::IK1, 0, false, 1);
call_harness!(c11_t_ik1_i_k2, Pat::IK1, 0, true, 2);
call_harness!(c11_t_ik1_r_k2, Pat::IK1, 0, false, 2);
call_harness!(c11_t_i1k1_i_k0, Pat::I1K1, 0, true, 0);
call_harness!(c11_t_i1k1_r_k0, Pat::I1K1, 0, false, 0);
call_harness!(c11_t_i1k1_i_k1, Pat::I1K1, 0, true, 1);
call_harness!(c11_t_i1k1_r_k1, Pat::I1K1, 0, false, 1);
call_harness!(c11_t_i1k1_i_k2, Pat::I1K1, 0, true, 2);
call_harness!(c11_t_i1k1_r_k2, Pat::I1K1, 0, false, 2);
call_harness!(c11_t_i1k1_i_k3, Pat::I1K1, 0, true, 3);
call_harness!(c11_t_i1k1_r_k3, Pat::I1K1, 0, false, 3);
call_harness!(c11_t_i1x_i_k0, Pat::I1X, 0, true, 0);
call_harness!(c11_t_i1x_r_k0, Pat::I1X, 0, false, 0);
call_harness!(c11_t_i1x_i_k1, Pat::I1X, 0, true, 1);
call_harness!(c11_t_i1x_r_k1, Pat::I1X, 0, false, 1);
call_harness!(c11_t_i1x_i_k2, Pat::I1X, 0, true, 2);
call_harness!(c11_t_i1x_r_k2, Pat::I1X, 0, false, 2);
call_harness!(c11_t_i1x_i_k3, Pat::I1X, 0, true, 3);
call_harness!(c11_t_i1x_r_k3, Pat::I1X, 0, false, 3);
call_harness!(c11_t_ix1_i_k0, Pat::IX1, 0, true, 0);
call_harness!(c11_t_ix1_r_k0, Pat::IX1, 0, false, 0);
call_harness!(c11_t_ix1_i_k1, Pat::IX1, 0, true, 1);
call_harness!(c11_t_ix1_r_k1, Pat::IX1, 0, false, 1);
call_harness!(c11_t_ix1_i_k2, Pat::IX1, 0, true, 2);
call_harness!(c11_t_ix1_r_k2, Pat::IX1, 0, false, 2);
call_harness!(c11_t_ix1_i_k3, Pat::IX1, 0, true, 3);
call_harness!(c11_t_ix1_r_k3, Pat::IX1, 0, false, 3);
call_harness!(c11_t_i1x1_i_k0, Pat::I1X1, 0, true, 0);
call_harness!(c11_t_i1x1_r_k0, Pat::I1X1, 0, false, 0);
call_harness!(c11_t_i1x1_i_k1, Pat::I1X1, 0, true, 1);
call_harness!(c11_t_i1x1_r_k1, Pat::I1X1, 0, false, 1);
call_harness!(c11_t_i1x1_i_k2, Pat::I1X1, 0, true, 2);
call_harness!(c11_t_i1x1_r_k2, Pat::I1X1, 0, false, 2);
call_harness!(c11_t_i1x1_i_k3, Pat::I1X1, 0, true, 3);
call_harness!(c11_t_i1x1_r_k3, Pat::I1X1, 0, false, 3);
call_harness!(c11_q_nnpsk0_i_k0_missingpsk, Pat::NN, 1, true, 0, true);
call_harness!(c11_q_nnpsk0_r_k0_missingpsk, Pat::NN, 1, false, 0, true);
call_harness!(c11_q_xxpsk3_i_k2, Pat::XX, 8, true, 2);
call_harness!(c11_t_xxpsk3_r_k2_missingpsk, Pat::XX, 8, false, 2, true);
call_harness!(c11_t_nnpsk2_r_k1_missingpsk, Pat::NN, 4, false, 1, true);
