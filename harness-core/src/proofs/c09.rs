//! C09 — nonce stepping and the reserved value 2^64-1: one transport operation from an ARBITRARY pair of
//! nonces (placed through the from-parts hooks), symbolic role / one-way class / sizes / decrypt verdict.
//! One step from an arbitrary state = induction step for call histories of any length.
#![allow(static_mut_refs)]
use crate::prims::Toy;
use crate::rm::*;
use crate::stubs::*;
use snow::error::StateProblem;
use snow::params::HandshakePattern;
use snow::verif::MAXDHLEN;
use snow::{Error, StatelessTransportState, TransportState};

type P = Toy<8, 4, 4>;
const CAP: usize = 64;

fn pattern(oneway: bool) -> HandshakePattern {
    if oneway {
        HandshakePattern::N
    } else {
        HandshakePattern::NN
    }
}

fn stateful(initiator: bool, oneway: bool, n_i: u64, n_r: u64) -> TransportState {
    TransportState::verif_from_parts(
        Box::new(OCipher::<1>),
        n_i,
        Box::new(OCipher::<2>),
        n_r,
        pattern(oneway),
        4,
        [0u8; MAXDHLEN],
        false,
        initiator,
    )
}

fn stateless(initiator: bool, oneway: bool) -> StatelessTransportState {
    StatelessTransportState::verif_from_parts(
        Box::new(OCipher::<1>),
        Box::new(OCipher::<2>),
        pattern(oneway),
        4,
        [0u8; MAXDHLEN],
        false,
        initiator,
    )
}

fn rm_tr(initiator: bool, oneway: bool) -> Tr {
    Tr { k1: [0u8; 32], k2: [0u8; 32], n1: 0, n2: 0, initiator, oneway }
}

fn err_of(e: RmErr) -> Error {
    match e {
        RmErr::OneWay => Error::State(StateProblem::OneWay),
        RmErr::Exhausted => Error::State(StateProblem::Exhausted),
        RmErr::Decrypt => Error::Decrypt,
        _ => Error::Input,
    }
}

/// the call was refused with one of the reasons that apply
fn refused_write(r: &Result<usize, Error>, tr: &Tr, nonce: u64, plen: usize, cap: usize) -> bool {
    let (ow, inp, exh) = TrOps::<P>::write_refusals(tr, nonce, plen, cap);
    (ow && *r == Err(Error::State(StateProblem::OneWay))) || (inp && *r == Err(Error::Input)) || (exh && *r == Err(Error::State(StateProblem::Exhausted)))
}
fn refused_read(r: &Result<usize, Error>, tr: &Tr, nonce: u64, mlen: usize, cap: usize) -> bool {
    let (ow, big, small, exh) = TrOps::<P>::read_refusals(tr, nonce, mlen, cap);
    (ow && *r == Err(Error::State(StateProblem::OneWay))) || (big && *r == Err(Error::Input)) || (small && *r == Err(Error::Decrypt)) || (exh && *r == Err(Error::State(StateProblem::Exhausted)))
}

fn no_cipher_calls() -> bool {
    unsafe { O_ENC_CALLS[1] == 0 && O_ENC_CALLS[2] == 0 && O_DEC_CALLS[1] == 0 && O_DEC_CALLS[2] == 0 }
}

#[kani::proof]
#[kani::unwind(20)]
pub fn c09_q_stateful_write() {
    let initiator: bool = kani::any();
    let oneway: bool = kani::any();
    let n_i: u64 = kani::any();
    let n_r: u64 = kani::any();
    let mut ts = stateful(initiator, oneway, n_i, n_r);
    let (n_send, n_recv) = if initiator { (n_i, n_r) } else { (n_r, n_i) };
    assert!(ts.sending_nonce() == n_send && ts.receiving_nonce() == n_recv, "C09: nonce getters");
    let payload: [u8; CAP] = kani::any();
    let plen: usize = kani::any();
    let cap: usize = kani::any();
    kani::assume(plen <= CAP && cap <= CAP);
    let mut buf: [u8; CAP] = kani::any();
    let before = buf;
    let r = ts.write_message(&payload[..plen], &mut buf[..cap]);
    let send_obj = if initiator { 1 } else { 2 };
    let other_obj = if initiator { 2 } else { 1 };
    kani::cover!(r.is_ok(), "C09 write ok reachable");
    kani::cover!(r == Err(Error::State(StateProblem::Exhausted)), "C09 write exhausted reachable");
    unsafe {
        assert!(!O_SAW_MAX[1] && !O_SAW_MAX[2], "C09: reserved nonce 2^64-1 passed to the cipher by a transport write");
        assert!(O_DEC_CALLS[1] == 0 && O_DEC_CALLS[2] == 0 && O_ENC_CALLS[other_obj] == 0, "C09: write used the wrong cipher object");
    }
    assert!(ts.receiving_nonce() == n_recv, "C09: a write moved the receiving nonce");
    match TrOps::<P>::precheck_write(&rm_tr(initiator, oneway), n_send, plen, cap) {
        None => {
            assert!(r == Ok(plen + 16), "C09: legitimate transport write failed or returned a wrong length");
            assert!(ts.sending_nonce() == n_send + 1, "C09: sending nonce did not advance by exactly one");
            unsafe {
                assert!(
                    O_ENC_CALLS[send_obj] == 1 && O_ENC_NONCE[send_obj] == n_send && O_ENC_ADLEN[send_obj] == 0 && O_ENC_PTLEN[send_obj] == plen,
                    "C09: write must encrypt exactly once under the current sending nonce with empty AD"
                );
            }
        },
        Some(_) => {
            assert!(refused_write(&r, &rm_tr(initiator, oneway), n_send, plen, cap), "C09: wrong error for a refused transport write");
            assert!(ts.sending_nonce() == n_send, "C09: a refused write moved the sending nonce");
            assert!(no_cipher_calls(), "C09: a refused write reached the cipher");
            let j: usize = kani::any();
            kani::assume(j < CAP);
            assert!(buf[j] == before[j], "C09: a refused write produced output");
        },
    }
}

#[kani::proof]
#[kani::unwind(20)]
pub fn c09_q_stateful_read() {
    let initiator: bool = kani::any();
    let oneway: bool = kani::any();
    let n_i: u64 = kani::any();
    let n_r: u64 = kani::any();
    let mut ts = stateful(initiator, oneway, n_i, n_r);
    let (n_send, n_recv) = if initiator { (n_i, n_r) } else { (n_r, n_i) };
    let msg: [u8; CAP] = kani::any();
    let mlen: usize = kani::any();
    let cap: usize = kani::any();
    kani::assume(mlen <= CAP && cap <= CAP);
    let verdict: bool = kani::any();
    let recv_obj = if initiator { 2 } else { 1 };
    let other_obj = if initiator { 1 } else { 2 };
    unsafe {
        O_DEC_VERDICT[recv_obj] = verdict;
    }
    let mut out: [u8; CAP] = kani::any();
    let r = ts.read_message(&msg[..mlen], &mut out[..cap]);
    kani::cover!(r.is_ok(), "C09 read ok reachable");
    kani::cover!(r == Err(Error::State(StateProblem::Exhausted)), "C09 read exhausted reachable");
    kani::cover!(r == Err(Error::Decrypt) && unsafe { O_DEC_CALLS[recv_obj] } == 1, "C09 read rejected by cipher reachable");
    unsafe {
        assert!(!O_SAW_MAX[1] && !O_SAW_MAX[2], "C09: reserved nonce 2^64-1 passed to the cipher by a transport read");
        assert!(O_ENC_CALLS[1] == 0 && O_ENC_CALLS[2] == 0 && O_DEC_CALLS[other_obj] == 0, "C09: read used the wrong cipher object");
    }
    assert!(ts.sending_nonce() == n_send, "C09: a read moved the sending nonce");
    match TrOps::<P>::precheck_read(&rm_tr(initiator, oneway), n_recv, mlen, cap) {
        None => {
            unsafe {
                assert!(
                    O_DEC_CALLS[recv_obj] == 1 && O_DEC_NONCE[recv_obj] == n_recv && O_DEC_ADLEN[recv_obj] == 0 && O_DEC_CTLEN[recv_obj] == mlen,
                    "C09: read must decrypt exactly once under the current receiving nonce with empty AD"
                );
            }
            if verdict {
                assert!(r == Ok(mlen - 16), "C09: authentic message not delivered");
                assert!(ts.receiving_nonce() == n_recv + 1, "C09: receiving nonce did not advance by exactly one");
                let j: usize = kani::any();
                kani::assume(j < mlen - 16);
                assert!(out[j] == msg[j], "C09: delivered payload differs from what the cipher produced");
            } else {
                assert!(r == Err(Error::Decrypt), "C09: rejected message must yield the decrypt error");
                assert!(ts.receiving_nonce() == n_recv, "C09: a rejected read moved the receiving nonce");
            }
        },
        Some(_) => {
            assert!(refused_read(&r, &rm_tr(initiator, oneway), n_recv, mlen, cap), "C09: wrong error for a refused transport read");
            assert!(ts.receiving_nonce() == n_recv, "C09: a refused read moved the receiving nonce");
            assert!(no_cipher_calls(), "C09: a refused read reached the cipher");
        },
    }
}

#[kani::proof]
#[kani::unwind(20)]
pub fn c09_q_stateless_write() {
    let initiator: bool = kani::any();
    let oneway: bool = kani::any();
    let ts = stateless(initiator, oneway);
    let nonce: u64 = kani::any();
    let payload: [u8; CAP] = kani::any();
    let plen: usize = kani::any();
    let cap: usize = kani::any();
    kani::assume(plen <= CAP && cap <= CAP);
    let mut buf: [u8; CAP] = kani::any();
    let before = buf;
    let r = ts.write_message(nonce, &payload[..plen], &mut buf[..cap]);
    let send_obj = if initiator { 1 } else { 2 };
    kani::cover!(r.is_ok(), "C09 stateless write ok reachable");
    kani::cover!(r == Err(Error::State(StateProblem::Exhausted)), "C09 stateless write exhausted reachable");
    unsafe {
        assert!(!O_SAW_MAX[1] && !O_SAW_MAX[2], "C09: reserved nonce 2^64-1 passed to the cipher by a stateless write");
    }
    match TrOps::<P>::precheck_write(&rm_tr(initiator, oneway), nonce, plen, cap) {
        None => {
            assert!(r == Ok(plen + 16), "C09: legitimate stateless write failed or returned a wrong length");
            unsafe {
                assert!(
                    O_ENC_CALLS[send_obj] == 1 && O_ENC_NONCE[send_obj] == nonce && O_ENC_ADLEN[send_obj] == 0 && O_ENC_PTLEN[send_obj] == plen
                        && O_ENC_CALLS[3 - send_obj] == 0 && O_DEC_CALLS[1] == 0 && O_DEC_CALLS[2] == 0,
                    "C09: stateless write must encrypt exactly once under the supplied nonce with the sender's key"
                );
            }
        },
        Some(_) => {
            assert!(refused_write(&r, &rm_tr(initiator, oneway), nonce, plen, cap), "C09: wrong error for a refused stateless write");
            assert!(no_cipher_calls(), "C09: a refused stateless write reached the cipher");
            let j: usize = kani::any();
            kani::assume(j < CAP);
            assert!(buf[j] == before[j], "C09: a refused stateless write produced output");
        },
    }
}

#[kani::proof]
#[kani::unwind(20)]
pub fn c09_q_stateless_read() {
    let initiator: bool = kani::any();
    let oneway: bool = kani::any();
    let ts = stateless(initiator, oneway);
    let nonce: u64 = kani::any();
    let msg: [u8; CAP] = kani::any();
    let mlen: usize = kani::any();
    let cap: usize = kani::any();
    kani::assume(mlen <= CAP && cap <= CAP);
    let verdict: bool = kani::any();
    let recv_obj = if initiator { 2 } else { 1 };
    unsafe {
        O_DEC_VERDICT[recv_obj] = verdict;
    }
    let mut out: [u8; CAP] = kani::any();
    let r = ts.read_message(nonce, &msg[..mlen], &mut out[..cap]);
    kani::cover!(r.is_ok(), "C09 stateless read ok reachable");
    kani::cover!(r == Err(Error::State(StateProblem::Exhausted)), "C09 stateless read exhausted reachable");
    unsafe {
        assert!(!O_SAW_MAX[1] && !O_SAW_MAX[2], "C09: reserved nonce 2^64-1 passed to the cipher by a stateless read");
    }
    match TrOps::<P>::precheck_read(&rm_tr(initiator, oneway), nonce, mlen, cap) {
        None => {
            unsafe {
                assert!(
                    O_DEC_CALLS[recv_obj] == 1 && O_DEC_NONCE[recv_obj] == nonce && O_DEC_ADLEN[recv_obj] == 0 && O_DEC_CTLEN[recv_obj] == mlen
                        && O_DEC_CALLS[3 - recv_obj] == 0 && O_ENC_CALLS[1] == 0 && O_ENC_CALLS[2] == 0,
                    "C09: stateless read must decrypt exactly once under the supplied nonce with the peer's key"
                );
            }
            if verdict {
                assert!(r == Ok(mlen - 16), "C09: authentic message not delivered (stateless)");
            } else {
                assert!(r == Err(Error::Decrypt), "C09: rejected message must yield the decrypt error (stateless)");
            }
        },
        Some(_) => {
            assert!(refused_read(&r, &rm_tr(initiator, oneway), nonce, mlen, cap), "C09: wrong error for a refused stateless read");
            assert!(no_cipher_calls(), "C09: a refused stateless read reached the cipher");
        },
    }
}

/// Explicit nonce settings and rekeys: only the addressed counter changes; rekey is the only user of 2^64-1.
#[kani::proof]
#[kani::unwind(40)]
pub fn c09_q_set_nonce_and_rekey() {
    let initiator: bool = kani::any();
    let n_i: u64 = kani::any();
    let n_r: u64 = kani::any();
    // one-way sessions included: the explicit receiving-nonce setting must never reach the sending counter
    let oneway: bool = kani::any();
    let mut ts = stateful(initiator, oneway, n_i, n_r);
    let (n_send, n_recv) = if initiator { (n_i, n_r) } else { (n_r, n_i) };
    let x: u64 = kani::any();
    let which: u8 = kani::any();
    kani::assume(which < 4);
    kani::cover!(which == 3, "C09 rekey branch reachable");
    match which {
        0 => {
            ts.set_receiving_nonce(x);
            assert!(ts.receiving_nonce() == x && ts.sending_nonce() == n_send, "C09: set_receiving_nonce");
            assert!(no_cipher_calls(), "C09: set_receiving_nonce reached the cipher");
        },
        1 => {
            ts.verif_set_sending_nonce(x);
            assert!(ts.sending_nonce() == x && ts.receiving_nonce() == n_recv, "C09: hook verif_set_sending_nonce");
        },
        2 => {
            ts.rekey_outgoing();
            let obj = if initiator { 1 } else { 2 };
            unsafe {
                assert!(O_SAW_MAX[obj] && !O_SAW_MAX[3 - obj] && O_ENC_CALLS[obj] == 1 && O_ENC_CALLS[3 - obj] == 0, "C09: rekey_outgoing must use nonce 2^64-1 on the sending key only");
            }
            assert!(ts.sending_nonce() == n_send && ts.receiving_nonce() == n_recv, "C09: rekey moved a nonce");
        },
        _ => {
            ts.rekey_incoming();
            let obj = if initiator { 2 } else { 1 };
            unsafe {
                assert!(O_SAW_MAX[obj] && !O_SAW_MAX[3 - obj] && O_ENC_CALLS[obj] == 1 && O_ENC_CALLS[3 - obj] == 0, "C09: rekey_incoming must use nonce 2^64-1 on the receiving key only");
            }
            assert!(ts.sending_nonce() == n_send && ts.receiving_nonce() == n_recv, "C09: rekey moved a nonce");
        },
    }
}

/// Sizes around the 65535-byte limit (lengths symbolic in 0..=66000, data not moved by the oracle cipher): a transport
/// write / read that fails for ANY reason leaves both nonces where they were and never reached the cipher; one that
/// succeeds moves exactly its own counter by one. (The small-buffer harnesses above cannot reach the oversize refusals.)
const BIG: usize = 66000;
static ZEROS: [u8; BIG] = [0u8; BIG];

#[kani::proof]
#[kani::unwind(20)]
pub fn c09_q_stateful_big_sizes() {
    unsafe {
        O_COPY = false;
    }
    let initiator: bool = kani::any();
    let n_i: u64 = kani::any();
    let n_r: u64 = kani::any();
    let mut ts = stateful(initiator, false, n_i, n_r);
    let (n_send, n_recv) = if initiator { (n_i, n_r) } else { (n_r, n_i) };
    let len: usize = kani::any();
    let cap: usize = kani::any();
    kani::assume(len <= BIG && cap <= BIG);
    let mut buf = [0u8; BIG];
    let write: bool = kani::any();
    let r = if write { ts.write_message(&ZEROS[..len], &mut buf[..cap]) } else { ts.read_message(&ZEROS[..len], &mut buf[..cap]) };
    kani::cover!(r.is_ok() && write, "C09 big write ok reachable");
    kani::cover!(r == Err(Error::Input) && len > 65535 && cap > 65535, "C09 oversize refusal with a large buffer reachable");
    unsafe {
        assert!(!O_SAW_MAX[1] && !O_SAW_MAX[2], "C09: reserved nonce 2^64-1 passed to the cipher");
    }
    if r.is_ok() {
        if write {
            assert!(ts.sending_nonce() == n_send + 1 && ts.receiving_nonce() == n_recv, "C09: a successful write must move the sending nonce by exactly one and nothing else");
        } else {
            assert!(ts.receiving_nonce() == n_recv + 1 && ts.sending_nonce() == n_send, "C09: a successful read must move the receiving nonce by exactly one and nothing else");
        }
    } else {
        assert!(ts.sending_nonce() == n_send && ts.receiving_nonce() == n_recv, "C09: a failed transport call moved a nonce");
        // a read the cipher itself rejects is the one failure that legitimately reaches the cipher
        if r != Err(Error::Decrypt) {
            assert!(no_cipher_calls(), "C09: a refused transport call reached the cipher");
        }
    }
}
