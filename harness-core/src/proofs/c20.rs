//! C20 (the half within reach) — a fallback resolver yields a primitive iff at least one member provides it,
//! preferring the first member. Availability per (primitive kind, choice) in both members is symbolic: the whole
//! finite space in one query per primitive kind. The wire-equivalence of the default and `ring` backends needs
//! ring's C/assembly and is NOT claimed (outside the technique: FFI).
use crate::stubs::*;
use snow::params::*;
use snow::resolvers::{CryptoResolver, FallbackResolver};

fn mk() -> (FallbackResolver, TagMasks, TagMasks) {
    let a = TagMasks { rng: kani::any(), dh: kani::any(), cipher: kani::any(), hash: kani::any() };
    let b = TagMasks { rng: kani::any(), dh: kani::any(), cipher: kani::any(), hash: kani::any() };
    let f = FallbackResolver::new(
        Box::new(TagResolver::<0> { rng: a.rng, dh: a.dh, cipher: a.cipher, hash: a.hash }),
        Box::new(TagResolver::<1> { rng: b.rng, dh: b.dh, cipher: b.cipher, hash: b.hash }),
    );
    (f, a, b)
}

#[derive(Clone, Copy)]
pub struct TagMasks {
    pub rng: bool,
    pub dh: u8,
    pub cipher: u8,
    pub hash: u8,
}

fn expect(name: Option<&'static str>, in_a: bool, in_b: bool) {
    kani::cover!(name == Some("B"), "C20 fallback member used reachable");
    assert!(name.is_some() == (in_a || in_b), "C20: fallback resolver yields a primitive iff at least one member provides it");
    if in_a {
        assert!(name == Some("A"), "C20: the preferred member must be used whenever it provides the primitive");
    } else if in_b {
        assert!(name == Some("B"), "C20: the fallback member must be used when only it provides the primitive");
    }
}

#[kani::proof]
#[kani::unwind(6)]
pub fn c20_q_fallback_cipher() {
    let (f, a, b) = mk();
    let which: bool = kani::any();
    let c = if which { CipherChoice::ChaChaPoly } else { CipherChoice::AESGCM };
    let i = cipher_idx(&c);
    let r = f.resolve_cipher(&c);
    expect(r.as_ref().map(|x| x.name()), a.cipher & (1 << i) != 0, b.cipher & (1 << i) != 0);
    core::mem::forget(r);
    core::mem::forget(f);
}

#[kani::proof]
#[kani::unwind(6)]
pub fn c20_q_fallback_hash() {
    let (f, a, b) = mk();
    let which: u8 = kani::any();
    kani::assume(which < 4);
    let c = match which {
        0 => HashChoice::SHA256,
        1 => HashChoice::SHA512,
        2 => HashChoice::Blake2s,
        _ => HashChoice::Blake2b,
    };
    let r = f.resolve_hash(&c);
    expect(r.as_ref().map(|x| x.name()), a.hash & (1 << which) != 0, b.hash & (1 << which) != 0);
    core::mem::forget(r);
    core::mem::forget(f);
}

#[kani::proof]
#[kani::unwind(6)]
pub fn c20_q_fallback_dh() {
    let (f, a, b) = mk();
    let which: bool = kani::any();
    let c = if which { DHChoice::Curve25519 } else { DHChoice::Curve448 };
    let i = dh_idx(&c);
    let r = f.resolve_dh(&c);
    expect(r.as_ref().map(|x| x.name()), a.dh & (1 << i) != 0, b.dh & (1 << i) != 0);
    core::mem::forget(r);
    core::mem::forget(f);
}

#[kani::proof]
#[kani::unwind(6)]
pub fn c20_q_fallback_rng() {
    let (f, a, b) = mk();
    let r = f.resolve_rng();
    let name = match r {
        Some(mut g) => {
            let v = g.next_u32();
            core::mem::forget(g);
            Some(if v == 0 { "A" } else { "B" })
        },
        None => None,
    };
    expect(name, a.rng, b.rng);
    core::mem::forget(f);
}
