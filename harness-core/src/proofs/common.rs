//! Kani-side helpers: symbolic inputs and reference-model session prefixes.
#![allow(static_mut_refs)]
use crate::prims::Prims;
use crate::rm::*;
use crate::stubs::*;

pub const NAME: &str = "Noise_XX_25519_ChaChaPoly_SHA256";
pub const MSGBUF: usize = 48;

pub fn any_psks() -> [[u8; 32]; 10] {
    // first 2 bytes of each PSK symbolic, the rest fixed and distinct per slot
    let mut p = [[0u8; 32]; 10];
    let mut i = 0;
    while i < 10 {
        let mut j = 0;
        while j < 32 {
            p[i][j] = (i as u8).wrapping_mul(37).wrapping_add(j as u8);
            j += 1;
        }
        let b = sym8();
        p[i][0] = b[0];
        p[i][1] = b[1];
        i += 1;
    }
    p
}

/// When set, `sym8` hands out fixed constants instead of symbolic bytes (C06 keeps all cryptographic inputs
/// concrete so that equal key bytes can only come from equal derivations, never from a solver-made toy collision).
pub static mut CONCRETE_INPUTS: bool = false;
static mut CONCRETE_CTR: u8 = 0;
pub fn sym8() -> [u8; 8] {
    unsafe {
        if CONCRETE_INPUTS {
            CONCRETE_CTR = CONCRETE_CTR.wrapping_add(1);
            let c = CONCRETE_CTR;
            [c, c ^ 0x5A, c.wrapping_mul(3), 0x11, c.wrapping_add(0x40), 0x7E, c.rotate_left(3), 0x01]
        } else {
            kani::any()
        }
    }
}
pub fn sym1() -> [u8; 1] {
    [sym8()[0]]
}

pub struct Pair {
    pub i: Hs,
    pub r: Hs,
}

/// Two reference-model parties with consistent, symbolic configuration.
pub fn rm_pair<P: Prims>(pat: Pat, psk_mask: u16, name: &[u8], prologue: &[u8]) -> Pair {
    let si: [u8; 8] = sym8();
    let sr: [u8; 8] = sym8();
    let mut pi = [0u8; 8];
    let mut pr = [0u8; 8];
    P::pubkey(&si[..P::SL], &mut pi);
    P::pubkey(&sr[..P::SL], &mut pr);
    let psks = any_psks();
    let i = HsOps::<P>::initialize(
        pat,
        psk_mask,
        true,
        name,
        prologue,
        if pat.needs_local_static(true) { Some(&si[..P::SL]) } else { None },
        if pat.needs_remote_static(true) { Some(&pr[..P::PL]) } else { None },
        psks,
        psk_mask,
    );
    let r = HsOps::<P>::initialize(
        pat,
        psk_mask,
        false,
        name,
        prologue,
        if pat.needs_local_static(false) { Some(&sr[..P::SL]) } else { None },
        if pat.needs_remote_static(false) { Some(&pi[..P::PL]) } else { None },
        psks,
        psk_mask,
    );
    Pair { i, r }
}

/// Advance both reference-model parties through messages 0..k (exclusive) with symbolic ephemerals and a
/// symbolic one-byte payload per message. Straight-line; `assume`s that every read authenticated.
pub fn rm_advance<P: Prims>(pair: &mut Pair, k: usize) {
    let mut m = 0;
    let mut ok = true;
    while m < k {
        let e: [u8; 8] = sym8();
        let pl: [u8; 1] = sym1();
        let mut msg = [0u8; MSGBUF];
        let mut out = [0u8; MSGBUF];
        let (w, r) = if m % 2 == 0 { (&mut pair.i, &mut pair.r) } else { (&mut pair.r, &mut pair.i) };
        let n = HsOps::<P>::write(w, &e[..P::SL], &pl, &mut msg, &mut ok);
        HsOps::<P>::read(r, &msg[..n], &mut out, &mut ok);
        m += 1;
    }
    kani::assume(ok);
}

pub fn set_rng_slot(slot: usize, v: &[u8; 8]) {
    unsafe {
        RNG_POOL[slot] = *v;
    }
}
pub fn rng_draws() -> usize {
    unsafe { RNG_DRAWS }
}
pub fn rng_bytes() -> usize {
    unsafe { RNG_BYTES }
}

pub static mut RNG_DRAWS_BASE: usize = 0;
pub static mut RNG_BYTES_BASE: usize = 0;
pub fn rng_draws_since() -> usize {
    unsafe { RNG_DRAWS - RNG_DRAWS_BASE }
}
pub fn rng_bytes_since() -> usize {
    unsafe { RNG_BYTES - RNG_BYTES_BASE }
}

pub fn has_e_token(pat: Pat, m: usize) -> bool {
    let toks = pat.def().msgs[m];
    let mut t = 0;
    while t < toks.len() {
        if matches!(toks[t], Tok::E) {
            return true;
        }
        t += 1;
    }
    false
}

/// assert a[..n] == b[..n] with concrete-index comparisons (nested 16-wide loops keep the unwind bound small;
/// a symbolic-index formulation turns a syntactic identity into a hard miter for the SAT solver).
#[macro_export]
macro_rules! assert_prefix_eq {
    ($a:expr, $b:expr, $n:expr, $cap:expr, $msg:expr) => {{
        let mut c = 0;
        while c * 16 < $cap {
            let mut j = 0;
            while j < 16 {
                let x = c * 16 + j;
                if x < $cap && x < $n {
                    assert!($a[x] == $b[x], $msg);
                }
                j += 1;
            }
            c += 1;
        }
    }};
}
