//! C16 — stateless transport is a pure function of (keys, nonce, input) and agrees with the stateful sender.
//! Free toy AEAD; keys, nonces, payloads, role symbolic. Thread interleavings are outside the technique
//! (Kani does not model concurrency): the receivers are `&self` and snow has no interior mutability
//! (`unsafe_code = "forbid"`), which is what makes concurrent use equivalent to some sequential order.
#![allow(static_mut_refs)]
use crate::stubs::*;
use snow::params::HandshakePattern;
use snow::verif::MAXDHLEN;
use snow::{StatelessTransportState, TransportState};

const L: usize = 3;
const M: usize = L + 16;

fn mk_stateless_a(initiator: bool) -> StatelessTransportState {
    StatelessTransportState::verif_from_parts(Box::new(SCipher::<1>), Box::new(SCipher::<2>), HandshakePattern::NN, 4, [0u8; MAXDHLEN], false, initiator)
}
fn mk_stateless_b(initiator: bool) -> StatelessTransportState {
    StatelessTransportState::verif_from_parts(Box::new(SCipher::<4>), Box::new(SCipher::<5>), HandshakePattern::NN, 4, [0u8; MAXDHLEN], false, initiator)
}

fn keys() {
    let k1: [u8; 32] = kani::any();
    let k2: [u8; 32] = kani::any();
    unsafe {
        CKEY[1] = k1;
        CKEY[2] = k2;
        CKEY[4] = k1;
        CKEY[5] = k2;
    }
}

#[kani::proof]
#[kani::unwind(34)]
pub fn c16_q_write_pure_and_equals_stateful() {
    keys();
    let initiator: bool = kani::any();
    let a = mk_stateless_a(initiator);
    let n: u64 = kani::any();
    kani::assume(n != u64::MAX);
    let p: [u8; L] = kani::any();
    let l: usize = kani::any();
    kani::assume(l <= L);
    let mut m1 = [0u8; M];
    let mut m2 = [0u8; M];
    let mut m3 = [0u8; M];
    let r1 = a.write_message(n, &p[..l], &mut m1);
    // an unrelated call in between must not matter
    let other: u64 = kani::any();
    let mut scratch = [0u8; M];
    let _ = a.write_message(other, &p[..l], &mut scratch);
    // ... nor a read of arbitrary bytes (accepted or not), nor a write that fails for lack of room
    let g: [u8; M] = kani::any();
    let mut gout = [0u8; L];
    let _ = a.read_message(other, &g, &mut gout);
    let mut tiny = [0u8; 2];
    let _ = a.write_message(n, &p[..l], &mut tiny);
    let r2 = a.write_message(n, &p[..l], &mut m2);
    kani::cover!(r1 == Ok(l + 16), "C16 write reachable");
    assert!(r1 == Ok(l + 16) && r2 == r1, "C16: stateless write result is not a function of its arguments");
    assert!(m1 == m2, "C16: stateless write produced different bytes for the same (nonce, payload)");
    // the n-th message of a stateful sender of the same session (same keys, same role)
    let (ni, nr) = if initiator { (n, 0) } else { (0, n) };
    let mut st = TransportState::verif_from_parts(Box::new(SCipher::<1>), ni, Box::new(SCipher::<2>), nr, HandshakePattern::NN, 4, [0u8; MAXDHLEN], false, initiator);
    let r3 = st.write_message(&p[..l], &mut m3);
    assert!(r3 == r1 && m3 == m1, "C16: stateless write under nonce n differs from the stateful sender's n-th message");
}

#[kani::proof]
#[kani::unwind(34)]
pub fn c16_q_roundtrip_any_order() {
    keys();
    let initiator: bool = kani::any();
    let a = mk_stateless_a(initiator);
    let b = mk_stateless_b(!initiator);
    let n1: u64 = kani::any();
    let n2: u64 = kani::any();
    kani::assume(n1 != u64::MAX && n2 != u64::MAX);
    let p1: [u8; L] = kani::any();
    let p2: [u8; L] = kani::any();
    let mut m1 = [0u8; M];
    let mut m2 = [0u8; M];
    assert!(a.write_message(n1, &p1, &mut m1) == Ok(M), "C16: write");
    assert!(a.write_message(n2, &p2, &mut m2) == Ok(M), "C16: write");
    let mut o1 = [0u8; L];
    let mut o2 = [0u8; L];
    let mut o3 = [0u8; L];
    // read in reverse order, and the first one a second time
    let r2 = b.read_message(n2, &m2, &mut o2);
    let r1 = b.read_message(n1, &m1, &mut o1);
    let r3 = b.read_message(n2, &m2, &mut o3);
    kani::cover!(r1 == Ok(L) && r2 == Ok(L), "C16 roundtrip reachable");
    assert!(r1 == Ok(L) && o1 == p1, "C16: message written under n is not read back under n");
    assert!(r2 == Ok(L) && o2 == p2, "C16: message written under n is not read back under n (reverse order)");
    assert!(r3 == Ok(L) && o3 == p2, "C16: repeated stateless read differs");
}

const BIG: usize = 66000;
static ZEROS: [u8; BIG] = [0u8; BIG];

/// Every payload length the limit allows (0..=65519), every nonce: the stateless write yields payload + 16 bytes, exactly
/// the length the stateful sender yields, and the stateless peer's read of a genuine message of that length returns the
/// payload length - also into an exact-fit buffer. Length-only oracle cipher (accepts: the message is the genuine one).
#[kani::proof]
#[kani::unwind(20)]
pub fn c16_q_any_length_any_nonce() {
    let initiator: bool = kani::any();
    let n: u64 = kani::any();
    kani::assume(n != u64::MAX);
    let plen: usize = kani::any();
    kani::assume(plen <= 65535 - 16);
    unsafe {
        O_COPY = false;
        O_DEC_VERDICT[1] = true;
        O_DEC_VERDICT[2] = true;
    }
    let a = StatelessTransportState::verif_from_parts(Box::new(OCipher::<1>), Box::new(OCipher::<2>), HandshakePattern::NN, 4, [0u8; MAXDHLEN], false, initiator);
    let b = StatelessTransportState::verif_from_parts(Box::new(OCipher::<1>), Box::new(OCipher::<2>), HandshakePattern::NN, 4, [0u8; MAXDHLEN], false, !initiator);
    let (ni, nr) = if initiator { (n, 0) } else { (0, n) };
    let mut st = TransportState::verif_from_parts(Box::new(OCipher::<1>), ni, Box::new(OCipher::<2>), nr, HandshakePattern::NN, 4, [0u8; MAXDHLEN], false, initiator);
    let mut buf = [0u8; BIG];
    let w = a.write_message(n, &ZEROS[..plen], &mut buf);
    let ws = st.write_message(&ZEROS[..plen], &mut buf);
    kani::cover!(w == Ok(65535), "C16 largest message reachable");
    assert!(w == Ok(plen + 16), "C16: stateless write of a payload within the limit must yield payload + 16 bytes");
    assert!(ws == w, "C16: stateless and stateful senders disagree on the message length");
    let exact: bool = kani::any();
    let cap = if exact { plen } else { BIG };
    let mut out = [0u8; BIG];
    let r = b.read_message(n, &ZEROS[..plen + 16], &mut out[..cap]);
    assert!(r == Ok(plen), "C16: a genuine message written under nonce n is not read back under n (some length / buffer size)");
}
