//! C17 — the reported remote static key is the peer's true, complete public key, at every point of the handshake
//! and after conversion to either transport mode. DH shape (PL, DL) = (5, 3) mimics P-256's "public key longer
//! than the shared secret", (4, 4) mimics Curve25519.
#![allow(static_mut_refs)]
use super::common::*;
use crate::glue::*;
use crate::prims::Toy;
use crate::rm::*;

pub fn remote_static_at<const PL: usize, const DL: usize>(pat: Pat, initiator: bool, k: usize) {
    let pro: [u8; 2] = kani::any();
    let mut pair = rm_pair::<Toy<8, PL, DL>>(pat, 0, NAME.as_bytes(), &pro);
    rm_advance::<Toy<8, PL, DL>>(&mut pair, k);
    let rm = if initiator { pair.i } else { pair.r };
    let peer = if initiator { pair.r } else { pair.i };
    // what the pattern has conveyed to this party so far, derived from the token table
    let conveyed = pat.needs_remote_static(initiator) || matches!(pat.remote_static_transmitted_at(initiator), Some(m) if m < k);
    assert!(rm.has_rs == conveyed, "RM self-consistency: has_rs");
    let hs = snow_from_rm_a::<8, PL, DL>(&rm, NAME, false);
    kani::cover!(true, "C17 reached");
    let got = hs.get_remote_static();
    if conveyed {
        assert!(got.is_some(), "C17: remote static key not reported although the pattern has conveyed it");
        let g = got.unwrap();
        assert!(g.len() == PL, "C17: reported remote static key has the wrong length");
        let mut j = 0;
        while j < PL {
            assert!(g[j] == peer.s_pub[j], "C17: reported remote static key is not the peer's public key");
            j += 1;
        }
    } else {
        assert!(got.is_none(), "C17: a remote static key is reported although none was supplied or conveyed");
    }
    if k == pat.nmsgs() {
        let hs2 = snow_from_rm_b::<8, PL, DL>(&rm, NAME, false);
        let ts = hs.into_transport_mode();
        let sl = hs2.into_stateless_transport_mode();
        assert!(ts.is_ok() && sl.is_ok(), "C17: conversion after the last message failed");
        if let (Ok(ts), Ok(sl)) = (ts, sl) {
            let a = ts.get_remote_static();
            let b = sl.get_remote_static();
            if conveyed {
                assert!(a.is_some() && b.is_some(), "C17: remote static key lost by the conversion to transport mode");
                let (a, b) = (a.unwrap(), b.unwrap());
                assert!(a.len() == PL, "C17: TransportState reports a remote static key of the wrong length");
                assert!(b.len() == PL, "C17: StatelessTransportState reports a remote static key of the wrong length");
                let mut j = 0;
                while j < PL {
                    if j < a.len() && j < b.len() {
                        assert!(a[j] == peer.s_pub[j] && b[j] == peer.s_pub[j], "C17: remote static key differs after conversion");
                    }
                    j += 1;
                }
            } else {
                assert!(a.is_none() && b.is_none(), "C17: a remote static key appears after conversion");
            }
            core::mem::forget(ts);
            core::mem::forget(sl);
        }
    }
}

macro_rules! rs_harness {
    ($name:ident, $pl:expr, $dl:expr, $pat:expr, $ini:expr, $k:expr) => {
        #[kani::proof]
        #[kani::unwind(34)]
        pub fn $name() {
            remote_static_at::<$pl, $dl>($pat, $ini, $k);
        }
    };
}
rs_harness!(c17_q_xx_i_end_p256shape, 5, 3, Pat::XX, true, 3);
rs_harness!(c17_q_xx_r_end_25519shape, 4, 4, Pat::XX, false, 3);
rs_harness!(c17_q_xx_r_before_s, 5, 3, Pat::XX, false, 2);
rs_harness!(c17_q_nk_i_start, 5, 3, Pat::NK, true, 0);
rs_harness!(c17_q_nn_i_end, 5, 3, Pat::NN, true, 2);
rs_harness!(c17_q_ik_r_after1, 5, 3, Pat::IK, false, 1);
rs_harness!(c17_t_ik_r_end, 5, 3, Pat::IK, false, 2);
rs_harness!(c17_t_kk_r_end, 5, 3, Pat::KK, false, 2);
rs_harness!(c17_t_x_r_end, 5, 3, Pat::X, false, 1);
rs_harness!(c17_t_n_r_end, 5, 3, Pat::N, false, 1);

/// A party that already knows the peer's static key (pre-shared or read earlier) is handed an arbitrary message of `len`
/// bytes at a point where it has to read: whenever that read fails, the reported remote static key is still the peer's
/// full key - in the handshake object and, after the genuine rest of the handshake, nothing else can have changed it
/// (C07 decides that the rest of the state is untouched; this harness pins the `rs` enabled flag, which C07's state
/// comparison does not see when the key bytes themselves are unchanged).
pub fn remote_static_survives_failed_read<const PL: usize, const DL: usize>(pat: Pat, initiator: bool, k: usize, len: usize) {
    let pro: [u8; 2] = kani::any();
    let mut pair = rm_pair::<Toy<8, PL, DL>>(pat, 0, NAME.as_bytes(), &pro);
    rm_advance::<Toy<8, PL, DL>>(&mut pair, k);
    let rm = if initiator { pair.i } else { pair.r };
    let peer = if initiator { pair.r } else { pair.i };
    assert!(rm.has_rs, "harness: this party must already know the peer's static key");
    let mut hs = snow_from_rm_a::<8, PL, DL>(&rm, NAME, false);
    let msg: [u8; 40] = kani::any();
    let mut out = [0u8; 40];
    let r = hs.read_message(&msg[..len], &mut out);
    kani::cover!(r.is_err(), "C17 failed read reachable");
    if r.is_err() {
        let got = hs.get_remote_static();
        assert!(got.is_some(), "C17: a failed read made the known remote static key disappear");
        let g = got.unwrap();
        assert!(g.len() == PL, "C17: reported remote static key has the wrong length after a failed read");
        let mut j = 0;
        while j < PL {
            assert!(g[j] == peer.s_pub[j], "C17: reported remote static key changed by a failed read");
            j += 1;
        }
    }
}
macro_rules! rs_failed_read_harness {
    ($name:ident, $pl:expr, $dl:expr, $pat:expr, $ini:expr, $k:expr, $len:expr) => {
        #[kani::proof]
        #[kani::unwind(50)]
        pub fn $name() {
            remote_static_survives_failed_read::<$pl, $dl>($pat, $ini, $k, $len);
        }
    };
}
// IK initiator reading message 2 (rs pre-shared): whole-length garbage (tag check fails) and a message cut inside `e`
rs_failed_read_harness!(c17_q_failed_read_ik_i_k1_full, 5, 3, Pat::IK, true, 1, 22);
rs_failed_read_harness!(c17_q_failed_read_ik_i_k1_short, 5, 3, Pat::IK, true, 1, 2);
// KK responder reading message 1 (rs pre-shared); XX initiator reading nothing further is not applicable (3 messages:
// the responder reads message 3 before it knows rs) - XK1-style deferred patterns: thorough
rs_failed_read_harness!(c17_q_failed_read_kk_r_k0_full, 5, 3, Pat::KK, false, 0, 22);
rs_failed_read_harness!(c17_t_failed_read_kk_i_k1_full, 5, 3, Pat::KK, true, 1, 22);
rs_failed_read_harness!(c17_t_failed_read_nk_i_k1_short, 5, 3, Pat::NK, true, 1, 3);

/// A message carrying an encrypted static key is altered inside its encrypted part (ideal AEAD, two real endpoints,
/// symbolic position / value / truncation): the read fails, and whatever is reported as the remote static key
/// afterwards is the sender's true key or nothing - the key becomes available only through a successful read.
macro_rules! rs_altered_harness {
    ($name:ident, $pat:expr, $k:expr, $kind:expr) => {
        #[kani::proof]
        #[kani::unwind(50)]
        pub fn $name() {
            super::c03::altered_encrypted_part_opt($pat, 0, $k, $kind, true);
        }
    };
}
rs_altered_harness!(c17_q_altered_s_xx_k1_flip, Pat::XX, 1, 0);
rs_altered_harness!(c17_q_altered_s_xx_k2_flip, Pat::XX, 2, 0);
rs_altered_harness!(c17_t_altered_s_ik_k0_flip, Pat::IK, 0, 0);
rs_altered_harness!(c17_t_altered_s_xx_k1_trunc, Pat::XX, 1, 1);
rs_altered_harness!(c17_t_altered_s_x_k0_flip, Pat::X, 0, 0);
