//! C07 — failed calls are no-ops.
//!  (i)  concrete-path failures (undersized output buffer at a chosen boundary, out-of-turn call, undersized
//!       payload buffer) followed by the valid call, which must then satisfy every C01 step assertion: bytes,
//!       lengths, handshake hash and the full post-state equal the specification's for the call that was retried;
//!  (ii) symbolic-path failures (a fully symbolic incoming message of symbolic length, symbolic payload buffer
//!       size): after the Err, turn, progress and all cryptographic state (h, ck, key flag, cipher key, cipher
//!       nonce) are what they were before;
//!  (iii) authentication failure at the first / second decryption of a message (oracle cipher), then the genuine
//!       message: the retry must present the same nonces to the cipher as a run without the failure.
#![allow(static_mut_refs)]
use super::c01::{step_read_pre, step_write_pre, Pre};
use super::common::*;
use crate::glue::*;
use crate::prims::Toy;
use crate::rm::*;
use crate::stubs::*;
use snow::verif;

macro_rules! retry_harness {
    ($name:ident, $f:ident, $plen:expr, $pat:expr, $mask:expr, $k:expr, $pre:expr) => {
        #[kani::proof]
        #[kani::unwind(34)]
        pub fn $name() {
            $f::<8, 4, 4, $plen>($pat, $mask, $k, $pre);
        }
    };
}

// XX message 3 (k=2) is "s, se": s is encrypted (16+4 bytes), payload 2+16. Buffers cut at: 0, inside s, after s.
retry_harness!(c07_q_xx_w2_smallbuf_19, step_write_pre, 2, Pat::XX, 0, 2, Pre::SmallBuf(19));
retry_harness!(c07_q_xx_w2_smallbuf_21, step_write_pre, 2, Pat::XX, 0, 2, Pre::SmallBuf(21));
retry_harness!(c07_q_xx_w1_smallbuf_30, step_write_pre, 1, Pat::XX, 0, 1, Pre::SmallBuf(30));
retry_harness!(c07_q_nn_w0_smallbuf_3, step_write_pre, 1, Pat::NN, 0, 0, Pre::SmallBuf(3));
retry_harness!(c07_q_xx_w2_outofturn, step_write_pre, 1, Pat::XX, 0, 2, Pre::OutOfTurn);
retry_harness!(c07_q_xx_r2_outofturn, step_read_pre, 1, Pat::XX, 0, 2, Pre::OutOfTurn);
retry_harness!(c07_q_xx_r2_smallpayloadbuf, step_read_pre, 2, Pat::XX, 0, 2, Pre::SmallPayloadBuf);
retry_harness!(c07_q_x1n_w2_smallbuf_10, step_write_pre, 2, Pat::X1N, 0, 2, Pre::SmallBuf(10));
// a rejected foreign message must not leave its ephemeral behind (message k starts with "e" and has more fields)
retry_harness!(c07_q_xx_r1_foreign_ephemeral, step_read_pre, 1, Pat::XX, 0, 1, Pre::ForeignEphemeralThenShort);
retry_harness!(c07_q_nn_r1_foreign_ephemeral, step_read_pre, 1, Pat::NN, 0, 1, Pre::ForeignEphemeralThenShort);
retry_harness!(c07_t_ik_r0_foreign_ephemeral, step_read_pre, 1, Pat::IK, 0, 0, Pre::ForeignEphemeralThenShort);
// psk token last in its message (everything before it has been mixed when MissingPsk is raised)
retry_harness!(c07_q_nnpsk1_w0_missingpsk, step_write_pre, 1, Pat::NN, 2, 0, Pre::MissingPsk(1));
retry_harness!(c07_q_xxpsk3_r2_missingpsk, step_read_pre, 1, Pat::XX, 8, 2, Pre::MissingPsk(3));
retry_harness!(c07_t_nnpsk0_w0_missingpsk, step_write_pre, 1, Pat::NN, 1, 0, Pre::MissingPsk(0));
retry_harness!(c07_t_nnpsk2_r1_missingpsk, step_read_pre, 1, Pat::NN, 4, 1, Pre::MissingPsk(2));
retry_harness!(c07_t_ik_w0_smallbuf_30, step_write_pre, 2, Pat::IK, 0, 0, Pre::SmallBuf(30));
retry_harness!(c07_t_nnpsk0_w0_smallbuf_5, step_write_pre, 2, Pat::NN, 1, 0, Pre::SmallBuf(5));
retry_harness!(c07_t_k1k1_w2_smallbuf_10, step_write_pre, 2, Pat::K1K1, 0, 2, Pre::SmallBuf(10));

type P = Toy<8, 4, 4>;

/// (ii) arbitrary incoming bytes: whenever the read fails, nothing has changed.
pub fn symbolic_failed_read(pat: Pat, psk_mask: u16, k: usize) {
    let pro: [u8; 2] = kani::any();
    let mut pair = rm_pair::<P>(pat, psk_mask, NAME.as_bytes(), &pro);
    rm_advance::<P>(&mut pair, k);
    let rmr = if k % 2 == 0 { pair.r } else { pair.i };
    let mut hs = snow_from_rm_a::<8, 4, 4>(&rmr, NAME, false);
    let s0 = verif::snapshot(&hs);
    let k0 = cipher_key(EP_A.c0);
    let msg: [u8; MSGBUF] = kani::any();
    let mlen: usize = kani::any();
    let cap: usize = kani::any();
    kani::assume(mlen <= MSGBUF && cap <= 8);
    let mut out = [0u8; 8];
    let r = hs.read_message(&msg[..mlen], &mut out[..cap]);
    kani::cover!(r.is_err(), "C07 failed read reachable");
    kani::cover!(r.is_ok(), "C07 successful read of arbitrary bytes reachable (toy tags can be forged by the solver)");
    if r.is_err() {
        let s1 = verif::snapshot(&hs);
        assert!(s1.pattern_position == s0.pattern_position && s1.my_turn == s0.my_turn, "C07: a failed read changed turn or progress");
        assert!(s1.has_key == s0.has_key, "C07: a failed read changed the key flag");
        let mut j = 0;
        while j < 8 {
            assert!(s1.h[j] == s0.h[j] && s1.ck[j] == s0.ck[j], "C07: a failed read changed h or ck");
            j += 1;
        }
        if s0.has_key {
            assert!(s1.cipher_nonce == s0.cipher_nonce, "C07: a failed read changed the handshake cipher nonce");
            let k1 = cipher_key(EP_A.c0);
            let mut j = 0;
            while j < 32 {
                assert!(k1[j] == k0[j], "C07: a failed read changed the handshake cipher key");
                j += 1;
            }
        }
    }
}

macro_rules! symfail_harness {
    ($name:ident, $pat:expr, $mask:expr, $k:expr) => {
        #[kani::proof]
        #[kani::unwind(50)]
        pub fn $name() {
            symbolic_failed_read($pat, $mask, $k);
        }
    };
}
symfail_harness!(c07_q_symread_xx_r2, Pat::XX, 0, 2);
symfail_harness!(c07_q_symread_xx_r1, Pat::XX, 0, 1);
symfail_harness!(c07_t_symread_ik_r0, Pat::IK, 0, 0);
symfail_harness!(c07_t_symread_nnpsk0_r0, Pat::NN, 1, 0);

/// (iii) authentication failure at decrypt call number `fail_at` (1 = first encrypted field), then the same
/// message again with an accepting cipher: the nonces presented to the cipher must be those of an undisturbed run.
pub fn auth_fail_then_retry(pat: Pat, psk_mask: u16, k: usize, fail_at: u32) {
    let pro: [u8; 2] = kani::any();
    let mut pair = rm_pair::<P>(pat, psk_mask, NAME.as_bytes(), &pro);
    rm_advance::<P>(&mut pair, k);
    let rmr = if k % 2 == 0 { pair.r } else { pair.i };
    let n0 = rmr.sym.n;
    let mut hs = snow_from_rm_oracle::<4, 4>(&rmr, NAME, false);
    let (fixed, _) = HsOps::<P>::overhead(pat, psk_mask, k);
    let msg: [u8; MSGBUF] = kani::any();
    let mut out = [0u8; 8];
    unsafe {
        O_DEC_FAIL_AT[0] = fail_at;
    }
    let r1 = hs.read_message(&msg[..fixed + 2], &mut out);
    assert!(r1 == Err(snow::Error::Decrypt), "C03: a handshake message whose encrypted field the cipher rejects was accepted");
    let calls1 = unsafe { O_DEC_CALLS[0] };
    unsafe {
        O_DEC_FAIL_AT[0] = 0;
        O_DEC_CALLS[0] = 0;
        O_DEC_NONCES[0] = [0; 4];
    }
    let r2 = hs.read_message(&msg[..fixed + 2], &mut out);
    kani::cover!(r2.is_ok(), "C07 retry after authentication failure reachable");
    assert!(calls1 == fail_at, "C07 harness: failure injected at the intended decryption");
    assert!(r2 == Ok(2), "C07: the genuine message is rejected after an earlier failed delivery");
    unsafe {
        let calls2 = O_DEC_CALLS[0];
        let mut c = 0;
        while c < 4 {
            if (c as u32) < calls2 {
                // nonces restart at 0 after every key-mixing token; within one key they count up from where the
                // undisturbed handshake cipher stood
                assert!(O_DEC_NONCES[0][c] <= n0 + (c as u64), "C07: the retry presents a drifted nonce to the cipher (state was not restored by the failed read)");
            }
            c += 1;
        }
    }
}

macro_rules! authfail_harness {
    ($name:ident, $pat:expr, $mask:expr, $k:expr, $at:expr) => {
        #[kani::proof]
        #[kani::unwind(34)]
        pub fn $name() {
            auth_fail_then_retry($pat, $mask, $k, $at);
        }
    };
}
// XX message 3 "s, se" + payload: two decryptions under different keys; X1N message 3 "s" + payload: same key
authfail_harness!(c07_q_authfail_x1n_r2_second, Pat::X1N, 0, 2, 2);
authfail_harness!(c07_q_authfail_xx_r1_second, Pat::XX, 0, 1, 2);
authfail_harness!(c07_t_authfail_x1n_r2_first, Pat::X1N, 0, 2, 1);

/// (iv) two REAL consecutive calls: the endpoint itself processes message k-1 (so whatever that step leaves
/// behind - including the bookkeeping a later rollback relies on - is the code's own), then an out-of-turn call
/// fails, then message k is written / read and must be the specification's.
pub fn prev_step_then_fail_then_step(pat: Pat, psk_mask: u16, k: usize) {
    let pro: [u8; 2] = kani::any();
    let mut pair = rm_pair::<P>(pat, psk_mask, NAME.as_bytes(), &pro);
    rm_advance::<P>(&mut pair, k - 1);
    // X = the party that writes message k (so it READS message k-1)
    let (mut rm_x, mut rm_peer) = if k % 2 == 0 { (pair.i, pair.r) } else { (pair.r, pair.i) };
    let mut hs = crate::glue::snow_from_rm_a::<8, 4, 4>(&rm_x, NAME, false);
    let e1: [u8; 8] = kani::any();
    let p1: [u8; 1] = kani::any();
    let mut m = [0u8; MSGBUF];
    let mut ok = true;
    let n = HsOps::<P>::write(&mut rm_peer, &e1[..4], &p1, &mut m, &mut ok);
    let mut o = [0u8; 8];
    let r0 = hs.read_message(&m[..n], &mut o);
    let mut o2 = [0u8; 8];
    HsOps::<P>::read(&mut rm_x, &m[..n], &mut o2, &mut ok);
    assert!(ok && r0 == Ok(1), "C02: an honest handshake message was not read");
    // failing call: a read when it is X's turn to write
    let junk: [u8; 6] = kani::any();
    let r1 = hs.read_message(&junk, &mut o);
    assert!(r1.is_err(), "C11: an out-of-turn read was accepted");
    // now message k
    let e2: [u8; 8] = kani::any();
    set_rng_slot(0, &e2);
    let p2: [u8; 2] = kani::any();
    let mut buf_s = [0u8; MSGBUF];
    let mut buf_r = [0u8; MSGBUF];
    let rs = hs.write_message(&p2, &mut buf_s);
    let nr = HsOps::<P>::write(&mut rm_x, &e2[..4], &p2, &mut buf_r, &mut ok);
    kani::cover!(ok, "C07 two-call harness reached");
    assert!(rs == Ok(nr), "C07: the step after a failed call does not succeed with the specification's length");
    crate::assert_prefix_eq!(buf_s, buf_r, nr, MSGBUF, "C07: the message written after a failed call differs from the one a session without the failed call writes");
    let snap = verif::snapshot(&hs);
    assert!(diff_state::<P>(&snap, EP_A, &rm_x) == 0, "C07: state after (step, failed call, step) differs from the specification's after (step, step)");
}

macro_rules! twocall_harness {
    ($name:ident, $pat:expr, $mask:expr, $k:expr) => {
        #[kani::proof]
        #[kani::unwind(34)]
        pub fn $name() {
            prev_step_then_fail_then_step($pat, $mask, $k);
        }
    };
}
// measured: > 10 min (the endpoint's own first step leaves position / flags as conditional values for the next
// two calls) - thorough tier only, 60 min cap. The quick tier covers the same bookkeeping through the post-state
// comparison of single steps (the checkpoint copy of the cipher key must equal the installed key):
twocall_harness!(c07_t_twocall_xxpsk2_k2, Pat::XX, 4, 2);
twocall_harness!(c07_t_twocall_nnpsk1_k1, Pat::NN, 2, 1);
retry_harness!(c07_q_step_xxpsk2_r1_checkpoint_key, step_read_pre, 1, Pat::XX, 4, 1, Pre::None);
retry_harness!(c07_q_step_nnpsk1_w0_checkpoint_key, step_write_pre, 1, Pat::NN, 2, 0, Pre::None);
