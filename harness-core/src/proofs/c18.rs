//! C18 (part a) — snow's default `Hash::hmac` / `Hash::hkdf` trait methods equal RFC 2104 HMAC and the Noise HKDF
//! for every key (length 0..=block), data and number of outputs, over a toy compression function with the real
//! shapes (hash 32 / block 64 and hash 64 / block 128): the construction is checked for all inputs, the
//! compression function itself (SHA-2, BLAKE2: third-party code) is outside reach. The real AEAD wrappers'
//! nonce layouts and round trips are in harness-real (part b).
#![allow(static_mut_refs)]
use crate::prims::{Prims, ToyHmac};
use crate::stubs::*;
use snow::types::Hash;

/// key length concrete per harness (0, 1, HL, block-1, block), key and data bytes symbolic: with a symbolic key
/// LENGTH every pad byte becomes a conditional and the equivalence is a hard XOR miter for the SAT solver
pub fn hmac_case<const HL: usize>(klen: usize) {
    let key: [u8; 128] = kani::any();
    let data: [u8; 3] = kani::any();
    let dlen: usize = kani::any();
    kani::assume(dlen <= 3);
    let mut got = [0u8; 64];
    let mut want = [0u8; 64];
    let mut h = SHashDefaultKdf::<HL, 0>;
    h.hmac(&key[..klen], &data[..dlen], &mut got);
    ToyHmac::<HL>::hmac(&key[..klen], &data[..dlen], &mut want);
    kani::cover!(true, "C18 hmac reached");
    let mut i = 0;
    while i < HL {
        assert!(got[i] == want[i], "C18: Hash::hmac differs from RFC 2104 HMAC");
        i += 1;
    }
}

pub fn hkdf_case<const HL: usize>(outputs: usize) {
    let ck: [u8; 64] = kani::any();
    let ikm: [u8; 32] = kani::any();
    let ilen: usize = kani::any();
    kani::assume(ilen == 0 || ilen == 4 || ilen == 32);
    let mut g1 = [0xAAu8; 64];
    let mut g2 = [0xAAu8; 64];
    let mut g3 = [0xAAu8; 64];
    let mut w1 = [0xAAu8; 64];
    let mut w2 = [0xAAu8; 64];
    let mut w3 = [0xAAu8; 64];
    let mut h = SHashDefaultKdf::<HL, 0>;
    h.hkdf(&ck[..HL], &ikm[..ilen], outputs, &mut g1, &mut g2, &mut g3);
    ToyHmac::<HL>::hkdf(&ck[..HL], &ikm[..ilen], outputs, &mut w1, &mut w2, &mut w3);
    kani::cover!(ilen == 32, "C18 hkdf with 32-byte input reachable");
    let mut i = 0;
    while i < 64 {
        // outputs that were not requested stay untouched; requested ones carry HL bytes
        assert!(g1[i] == w1[i] && g2[i] == w2[i] && g3[i] == w3[i], "C18: Hash::hkdf differs from the Noise HKDF definition");
        i += 1;
    }
}

macro_rules! hmac_harness {
    ($name:ident, $hl:expr, $klen:expr, $unw:expr) => {
        #[kani::proof]
        #[kani::unwind($unw)]
        pub fn $name() {
            hmac_case::<$hl>($klen);
        }
    };
}
hmac_harness!(c18_q_hmac_32_64_key0, 32, 0, 66);
hmac_harness!(c18_q_hmac_32_64_key32, 32, 32, 66);
hmac_harness!(c18_q_hmac_32_64_key64, 32, 64, 66);
hmac_harness!(c18_t_hmac_32_64_key1, 32, 1, 66);
hmac_harness!(c18_t_hmac_32_64_key63, 32, 63, 66);
hmac_harness!(c18_t_hmac_64_128_key64, 64, 64, 130);
hmac_harness!(c18_t_hmac_64_128_key128, 64, 128, 130);
#[kani::proof]
#[kani::unwind(66)]
pub fn c18_q_hkdf2_32_64() {
    hkdf_case::<32>(2);
}
#[kani::proof]
#[kani::unwind(66)]
pub fn c18_q_hkdf3_32_64() {
    hkdf_case::<32>(3);
}
#[kani::proof]
#[kani::unwind(66)]
pub fn c18_t_hkdf1_32_64() {
    hkdf_case::<32>(1);
}
#[kani::proof]
#[kani::unwind(130)]
pub fn c18_t_hkdf3_64_128() {
    hkdf_case::<64>(3);
}
