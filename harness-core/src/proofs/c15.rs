//! C15 — rekey follows REKEY(k) = first 32 bytes of ENCRYPT(k, 2^64-1, "", 0^32), touches only the chosen
//! direction, leaves nonces alone, and keeps / breaks synchronisation as expected.
#![allow(static_mut_refs)]
use crate::prims::Toy;
use crate::rm;
use crate::stubs::*;
use snow::params::HandshakePattern;
use snow::types::Cipher;
use snow::verif::MAXDHLEN;
use snow::{StatelessTransportState, TransportState};

type P = Toy<8, 4, 4>;

/// (a) snow's default `Cipher::rekey` trait method over the free toy AEAD == the specification's REKEY.
#[kani::proof]
#[kani::unwind(34)]
pub fn c15_q_default_rekey_is_spec_rekey() {
    let k: [u8; 32] = kani::any();
    let mut c = SCipher::<1>;
    c.set(&k);
    c.rekey();
    let want = rm::rekey::<P>(&k);
    kani::cover!(true, "C15 rekey reachable");
    assert!(cipher_key(1) == want, "C15: Cipher::rekey does not install REKEY(k)");
}

/// (b) direction map, stateful: which object is re-keyed by which call, for both roles; nonces untouched.
#[kani::proof]
#[kani::unwind(34)]
pub fn c15_q_direction_map_stateful() {
    let k1: [u8; 32] = kani::any();
    let k2: [u8; 32] = kani::any();
    let a: [u8; 32] = kani::any();
    let b: [u8; 32] = kani::any();
    unsafe {
        CKEY[1] = k1;
        CKEY[2] = k2;
    }
    let initiator: bool = kani::any();
    let ni: u64 = kani::any();
    let nr: u64 = kani::any();
    let mut ts = TransportState::verif_from_parts(Box::new(SCipher::<1>), ni, Box::new(SCipher::<2>), nr, HandshakePattern::NN, 4, [0u8; MAXDHLEN], false, initiator);
    let (s0, r0) = (ts.sending_nonce(), ts.receiving_nonce());
    let op: u8 = kani::any();
    kani::assume(op < 8);
    // expected keys of (initiator-egress object 1, responder-egress object 2)
    let (mut e1, mut e2) = (k1, k2);
    match op {
        0 => {
            ts.rekey_outgoing();
            if initiator { e1 = rm::rekey::<P>(&k1) } else { e2 = rm::rekey::<P>(&k2) }
        },
        1 => {
            ts.rekey_incoming();
            if initiator { e2 = rm::rekey::<P>(&k2) } else { e1 = rm::rekey::<P>(&k1) }
        },
        2 => {
            ts.rekey_initiator_manually(&a);
            e1 = a;
        },
        3 => {
            ts.rekey_responder_manually(&a);
            e2 = a;
        },
        4 => {
            ts.rekey_manually(Some(&a), None);
            e1 = a;
        },
        5 => {
            ts.rekey_manually(None, Some(&a));
            e2 = a;
        },
        6 => {
            // both keys in one call
            ts.rekey_manually(Some(&a), Some(&b));
            e1 = a;
            e2 = b;
        },
        _ => {
            ts.rekey_manually(None, None);
        },
    }
    kani::cover!(op == 6, "C15 direction map reachable");
    assert!(cipher_key(1) == e1 && cipher_key(2) == e2, "C15: rekey changed the wrong direction's key or installed a wrong key");
    assert!(ts.sending_nonce() == s0 && ts.receiving_nonce() == r0, "C15: rekey moved a nonce");
}

/// (b) direction map, stateless.
#[kani::proof]
#[kani::unwind(34)]
pub fn c15_q_direction_map_stateless() {
    let k1: [u8; 32] = kani::any();
    let k2: [u8; 32] = kani::any();
    let a: [u8; 32] = kani::any();
    let b: [u8; 32] = kani::any();
    unsafe {
        CKEY[1] = k1;
        CKEY[2] = k2;
    }
    let initiator: bool = kani::any();
    let mut ts = StatelessTransportState::verif_from_parts(Box::new(SCipher::<1>), Box::new(SCipher::<2>), HandshakePattern::NN, 4, [0u8; MAXDHLEN], false, initiator);
    let op: u8 = kani::any();
    kani::assume(op < 8);
    let (mut e1, mut e2) = (k1, k2);
    match op {
        0 => {
            ts.rekey_outgoing();
            if initiator { e1 = rm::rekey::<P>(&k1) } else { e2 = rm::rekey::<P>(&k2) }
        },
        1 => {
            ts.rekey_incoming();
            if initiator { e2 = rm::rekey::<P>(&k2) } else { e1 = rm::rekey::<P>(&k1) }
        },
        2 => {
            ts.rekey_initiator_manually(&a);
            e1 = a;
        },
        3 => {
            ts.rekey_responder_manually(&a);
            e2 = a;
        },
        4 => {
            ts.rekey_manually(Some(&a), None);
            e1 = a;
        },
        5 => {
            ts.rekey_manually(None, Some(&a));
            e2 = a;
        },
        6 => {
            // both keys in one call
            ts.rekey_manually(Some(&a), Some(&b));
            e1 = a;
            e2 = b;
        },
        _ => {
            ts.rekey_manually(None, None);
        },
    }
    kani::cover!(op == 6, "C15 stateless direction map reachable");
    assert!(cipher_key(1) == e1 && cipher_key(2) == e2, "C15: stateless rekey changed the wrong direction's key or installed a wrong key");
}

fn ideal_rekey(k: &[u8; 32]) -> [u8; 32] {
    // REKEY under the ideal AEAD's body function, through snow's own default trait method on a scratch object
    let mut c = ICipher::<7>;
    c.set(k);
    c.rekey();
    cipher_key(7)
}

/// (c) sync / desync on the initiator->responder direction, ideal AEAD: a symbolic sequence of 3 operations
/// drawn from {I.rekey_outgoing, R.rekey_incoming, I.manual(a), R.manual(b), I.rekey_incoming (other direction),
/// send+deliver}, then a final send+deliver. A delivery must be accepted iff both ends hold the same key for
/// that direction (key identity = derivation history under the ideal model); accepted payloads are intact.
#[kani::proof]
#[kani::unwind(42)]
pub fn c15_q_sync_desync() {
    let k1: [u8; 32] = kani::any();
    let k2: [u8; 32] = kani::any();
    let a: [u8; 32] = kani::any();
    let b: [u8; 32] = kani::any();
    unsafe {
        CKEY[1] = k1;
        CKEY[2] = k2;
        CKEY[4] = k1;
        CKEY[5] = k2;
    }
    // assumptions of the ideal model: REKEY has no fixed point / collision on the keys in play, manual keys differ
    let rk1 = ideal_rekey(&k1);
    let rrk1 = ideal_rekey(&rk1);
    kani::assume(rk1 != k1 && rrk1 != rk1 && rrk1 != k1 && a != b && a != k1 && b != k1 && a != rk1 && b != rk1 && a != rrk1 && b != rrk1);
    let mut ini = TransportState::verif_from_parts(Box::new(ICipher::<1>), 0, Box::new(ICipher::<2>), 0, HandshakePattern::NN, 4, [0u8; MAXDHLEN], false, true);
    let mut res = TransportState::verif_from_parts(Box::new(ICipher::<4>), 0, Box::new(ICipher::<5>), 0, HandshakePattern::NN, 4, [0u8; MAXDHLEN], false, false);
    // model: key of the i->r direction at each end, as a small term: (number of REKEYs applied to k1) or manual a/b
    // 0,1,2.. = REKEY^n(k1); 100 = a; 101 = b; REKEY of a manual key = 200 + .. (not distinguished further: only
    // equality of histories matters and the sequence is short)
    let mut ki: u16 = 0;
    let mut kr: u16 = 0;
    let mut sent: u64 = 0;
    let mut recvd: u64 = 0;
    let mut step = 0;
    while step < 3 {
        let op: u8 = kani::any();
        kani::assume(op < 5);
        match op {
            0 => {
                ini.rekey_outgoing();
                ki = if ki < 2 { ki + 1 } else { 999 };
            },
            1 => {
                res.rekey_incoming();
                kr = if kr < 2 { kr + 1 } else { 998 };
            },
            2 => {
                ini.rekey_initiator_manually(&a);
                ki = 100;
            },
            3 => {
                res.rekey_initiator_manually(if step == 0 { &a } else { &b });
                kr = if step == 0 { 100 } else { 101 };
            },
            _ => {
                // the other direction is independent
                ini.rekey_incoming();
            },
        }
        step += 1;
    }
    kani::assume(ki != 999 && kr != 998);
    let p: [u8; 2] = kani::any();
    let mut m = [0u8; 18];
    let mut o = [0u8; 2];
    assert!(ini.write_message(&p, &mut m) == Ok(18), "C15: write after rekeys failed");
    sent += 1;
    let r = res.read_message(&m, &mut o);
    let in_sync = ki == kr;
    kani::cover!(in_sync && ki == 1, "C15 in-sync after one rekey each reachable");
    kani::cover!(!in_sync, "C15 out-of-sync reachable");
    if in_sync {
        assert!(r == Ok(2) && o == p, "C15: both sides hold the same key for this direction but the message was not delivered");
        recvd += 1;
    } else {
        assert!(r.is_err(), "C15: message accepted although the two sides rekeyed differently");
    }
    assert!(ini.sending_nonce() == sent && res.receiving_nonce() == recvd, "C15: rekey disturbed the nonces");
}

/// (c') in-sync bytes == specification: after one rekey_outgoing, the next message is ENCRYPT(REKEY(k), n, "", p).
#[kani::proof]
#[kani::unwind(34)]
pub fn c15_q_bytes_after_rekey() {
    use crate::prims::Prims;
    let k1: [u8; 32] = kani::any();
    let k2: [u8; 32] = kani::any();
    unsafe {
        CKEY[1] = k1;
        CKEY[2] = k2;
    }
    let initiator: bool = kani::any();
    let n: u64 = kani::any();
    kani::assume(n != u64::MAX);
    let (ni, nr) = if initiator { (n, 0) } else { (0, n) };
    let mut ts = TransportState::verif_from_parts(Box::new(SCipher::<1>), ni, Box::new(SCipher::<2>), nr, HandshakePattern::NN, 4, [0u8; MAXDHLEN], false, initiator);
    ts.rekey_outgoing();
    let p: [u8; 2] = kani::any();
    let mut m = [0u8; 18];
    let mut w = [0u8; 18];
    let r = ts.write_message(&p, &mut m);
    let nk = rm::rekey::<P>(if initiator { &k1 } else { &k2 });
    P::encrypt(&nk, n, &[], &p, &mut w);
    kani::cover!(r == Ok(18), "C15 bytes after rekey reachable");
    assert!(r == Ok(18) && m == w, "C15: message after rekey differs from ENCRYPT(REKEY(k), n, \"\", payload)");
}
