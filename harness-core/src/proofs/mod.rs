//! Kani proof harnesses. One solver query per harness; names are `<cid>_<tier>_<what>`.
pub mod common;
pub mod c01;
pub mod c04;
pub mod c05;
pub mod c06;
pub mod c07;
pub mod c09;
pub mod c11;
pub mod c12;
pub mod c14;
pub mod c15;
pub mod c16;
pub mod c17;
pub mod registry;
