//! C14 (framing) and the hostile-size half of C10 (totality): one real handshake `write_message` /
//! `read_message` at message k with payload, message and buffer lengths symbolic in 0..=66000, over
//! length-only stubs that enforce the buffer contract of the built-in backends.
#![allow(static_mut_refs)]
use super::common::*;
use crate::glue::*;
use crate::prims::Toy;
use crate::rm::*;
use crate::stubs::*;
use snow::Error;

pub const BIG: usize = 66000;
static ZEROS: [u8; BIG] = [0u8; BIG];

type P = Toy<8, 4, 4>;

pub fn hostile_write(pat: Pat, psk_mask: u16, k: usize) {
    let pro: [u8; 2] = kani::any();
    let mut pair = rm_pair::<P>(pat, psk_mask, NAME.as_bytes(), &pro);
    rm_advance::<P>(&mut pair, k);
    let rmw = if k % 2 == 0 { pair.i } else { pair.r };
    let mut hs = snow_from_rm_oracle::<4, 4>(&rmw, NAME, false);
    unsafe {
        O_COPY = false;
    }
    let plen: usize = kani::any();
    let cap: usize = kani::any();
    kani::assume(plen <= BIG && cap <= BIG);
    let mut buf = [0u8; BIG];
    let r = hs.write_message(&ZEROS[..plen], &mut buf[..cap]);
    let want = HsOps::<P>::msg_len(pat, psk_mask, k, plen);
    kani::cover!(r.is_ok(), "C14 write ok reachable");
    kani::cover!(r == Err(Error::Input), "C14 write input error reachable");
    match r {
        Ok(n) => {
            assert!(n == want, "C14: write_message returned a length different from the specification's");
            assert!(n <= 65535, "C14: write_message produced a message longer than 65535 bytes");
            assert!(n <= cap, "C14: write_message reported more bytes than the output buffer holds");
        },
        Err(_) => {},
    }
    if want <= 65535 && want + 16 <= cap {
        assert!(r.is_ok(), "C14: a write that fits (with 16 spare bytes) was refused");
    }
    if want > cap || want > 65535 {
        assert!(r == Err(Error::Input), "C14: a write that does not fit must fail with the input error");
    }
}

pub fn hostile_read(pat: Pat, psk_mask: u16, k: usize) {
    let pro: [u8; 2] = kani::any();
    let mut pair = rm_pair::<P>(pat, psk_mask, NAME.as_bytes(), &pro);
    rm_advance::<P>(&mut pair, k);
    let rmr = if k % 2 == 0 { pair.r } else { pair.i };
    let mut hs = snow_from_rm_oracle::<4, 4>(&rmr, NAME, false);
    let mlen: usize = kani::any();
    let cap: usize = kani::any();
    kani::assume(mlen <= BIG && cap <= BIG);
    let verdict: bool = kani::any();
    unsafe {
        O_DEC_VERDICT[0] = verdict;
        O_COPY = false;
    }
    let mut out = [0u8; BIG];
    let r = hs.read_message(&ZEROS[..mlen], &mut out[..cap]);
    let (fixed, _) = HsOps::<P>::overhead(pat, psk_mask, k);
    kani::cover!(r.is_ok(), "C14 read ok reachable");
    kani::cover!(r == Err(Error::Input), "C14 read input error reachable");
    match r {
        Ok(n) => {
            assert!(mlen >= fixed && n == mlen - fixed, "C14: read_message returned a length other than message length minus fixed overhead");
            assert!(n <= cap, "C14: read_message reported more bytes than the payload buffer holds");
            assert!(mlen <= 65535, "C14: read_message accepted a message longer than 65535 bytes");
        },
        Err(_) => {},
    }
    if mlen > 65535 {
        assert!(r == Err(Error::Input), "C14: a message longer than 65535 bytes must fail with the input error");
    }
    if mlen < fixed {
        assert!(r.is_err(), "C14: a message shorter than the fixed fields was accepted");
    }
    if mlen >= fixed && mlen <= 65535 && cap >= mlen - fixed && verdict {
        assert!(r.is_ok(), "C14: a well-sized authentic message was refused");
    }
}

macro_rules! hostile {
    ($name:ident, $f:ident, $pat:expr, $mask:expr, $k:expr) => {
        #[kani::proof]
        #[kani::unwind(34)]
        pub fn $name() {
            $f($pat, $mask, $k);
        }
    };
}

hostile!(c14_q_nn_w0, hostile_write, Pat::NN, 0, 0);
hostile!(c14_q_nn_r0, hostile_read, Pat::NN, 0, 0);
hostile!(c14_q_nn_w1, hostile_write, Pat::NN, 0, 1);
hostile!(c14_q_xx_w1, hostile_write, Pat::XX, 0, 1);
hostile!(c14_q_xx_r1, hostile_read, Pat::XX, 0, 1);
hostile!(c14_q_xx_w2, hostile_write, Pat::XX, 0, 2);
hostile!(c14_q_ik_w0, hostile_write, Pat::IK, 0, 0);
hostile!(c14_q_ik_r0, hostile_read, Pat::IK, 0, 0);

// ------------------------------------------------------------------------------------------ transport framing

use snow::params::HandshakePattern;
use snow::verif::MAXDHLEN;
use snow::{StatelessTransportState, TransportState};

/// Both transport types, one call, lengths symbolic in 0..=66000, nonces and role symbolic.
#[kani::proof]
#[kani::unwind(20)]
pub fn c14_q_transport_write() {
    unsafe {
        O_COPY = false;
    }
    let initiator: bool = kani::any();
    let stateless: bool = kani::any();
    let n_i: u64 = kani::any();
    let n_r: u64 = kani::any();
    kani::assume(n_i != u64::MAX && n_r != u64::MAX);
    let plen: usize = kani::any();
    let cap: usize = kani::any();
    kani::assume(plen <= BIG && cap <= BIG);
    let mut buf = [0u8; BIG];
    let r = if stateless {
        let ts = StatelessTransportState::verif_from_parts(Box::new(OCipher::<1>), Box::new(OCipher::<2>), HandshakePattern::NN, 4, [0u8; MAXDHLEN], false, initiator);
        ts.write_message(n_i, &ZEROS[..plen], &mut buf[..cap])
    } else {
        let mut ts = TransportState::verif_from_parts(Box::new(OCipher::<1>), n_i, Box::new(OCipher::<2>), n_r, HandshakePattern::NN, 4, [0u8; MAXDHLEN], false, initiator);
        ts.write_message(&ZEROS[..plen], &mut buf[..cap])
    };
    kani::cover!(r.is_ok(), "C14 transport write ok reachable");
    kani::cover!(r == Err(Error::Input), "C14 transport write input error reachable");
    let want = plen + 16;
    if want > cap || want > 65535 {
        assert!(r == Err(Error::Input), "C14: a transport write that does not fit must fail with the input error");
    } else {
        assert!(r == Ok(want), "C14: transport write must return payload length + 16");
    }
}

#[kani::proof]
#[kani::unwind(20)]
pub fn c14_q_transport_read() {
    let initiator: bool = kani::any();
    let stateless: bool = kani::any();
    let n_i: u64 = kani::any();
    let n_r: u64 = kani::any();
    kani::assume(n_i != u64::MAX && n_r != u64::MAX);
    let mlen: usize = kani::any();
    let cap: usize = kani::any();
    kani::assume(mlen <= BIG && cap <= BIG);
    let verdict: bool = kani::any();
    unsafe {
        O_COPY = false;
        O_DEC_VERDICT[1] = verdict;
        O_DEC_VERDICT[2] = verdict;
    }
    let mut out = [0u8; BIG];
    let r = if stateless {
        let ts = StatelessTransportState::verif_from_parts(Box::new(OCipher::<1>), Box::new(OCipher::<2>), HandshakePattern::NN, 4, [0u8; MAXDHLEN], false, initiator);
        ts.read_message(n_i, &ZEROS[..mlen], &mut out[..cap])
    } else {
        let mut ts = TransportState::verif_from_parts(Box::new(OCipher::<1>), n_i, Box::new(OCipher::<2>), n_r, HandshakePattern::NN, 4, [0u8; MAXDHLEN], false, initiator);
        ts.read_message(&ZEROS[..mlen], &mut out[..cap])
    };
    kani::cover!(r.is_ok(), "C14 transport read ok reachable");
    kani::cover!(r == Err(Error::Input), "C14 transport read input error reachable");
    if mlen > 65535 {
        assert!(r == Err(Error::Input), "C14: a transport message longer than 65535 bytes must fail with the input error");
    } else if mlen < 16 {
        assert!(r.is_err(), "C14: a transport message shorter than a tag was accepted");
    } else if cap < mlen - 16 {
        assert!(r.is_err(), "C14: a transport read into a too-small buffer was accepted");
    } else if verdict {
        assert!(r == Ok(mlen - 16), "C14: transport read must return message length - 16");
    } else {
        assert!(r == Err(Error::Decrypt), "C14: rejected transport message must yield the decrypt error");
    }
}

// C10 runs the same hostile-size harnesses under its own id: no call may panic (a panic inside a built-in backend is
// represented by the stub's buffer-contract assertion) for any payload / message / buffer length in 0..=66000
hostile!(c10_q_hostile_xx_w1, hostile_write, Pat::XX, 0, 1);
hostile!(c10_q_hostile_ik_w0, hostile_write, Pat::IK, 0, 0);
hostile!(c10_q_hostile_xx_r1, hostile_read, Pat::XX, 0, 1);
hostile!(c10_q_hostile_nn_w0, hostile_write, Pat::NN, 0, 0);
hostile!(c10_t_hostile_xx_w2, hostile_write, Pat::XX, 0, 2);
hostile!(c10_t_hostile_x_w0, hostile_write, Pat::X, 0, 0);
hostile!(c10_t_hostile_kx_w1, hostile_write, Pat::KX, 0, 1);
hostile!(c10_t_hostile_nnpsk0_r0, hostile_read, Pat::NN, 1, 0);
hostile!(c10_t_hostile_ix_r1, hostile_read, Pat::IX, 0, 1);

#[kani::proof]
#[kani::unwind(20)]
pub fn c10_q_hostile_transport_read() {
    c14_q_transport_read();
}
#[kani::proof]
#[kani::unwind(20)]
pub fn c10_q_hostile_transport_write() {
    c14_q_transport_write();
}

hostile!(c14_q_ix_r0, hostile_read, Pat::IX, 0, 0);
hostile!(c14_q_ix_w0, hostile_write, Pat::IX, 0, 0);
