//! C01 — wire conformance: real snow step vs reference-model step, from reference-model-reachable states.
#![allow(static_mut_refs)]
use super::common::*;
use crate::assert_prefix_eq;
use crate::glue::*;
use crate::prims::Toy;
use crate::rm::*;
use crate::stubs::*;
use snow::verif;

/// What (if anything) happens before the step under test: used by C07 (a failed call must be a no-op).
#[derive(Clone, Copy, PartialEq)]
pub enum Pre {
    None,
    /// failing write into a buffer of this many bytes (smaller than the message)
    SmallBuf(usize),
    /// call of the wrong kind for the current turn (read when it is time to write, and vice versa)
    OutOfTurn,
    /// genuine message, payload buffer one byte too small (reader only)
    SmallPayloadBuf,
    /// the PSK this message needs (slot given) has not been supplied: the call fails with MissingPsk after the
    /// tokens before the psk token were processed; then `set_psk`, then the valid call
    MissingPsk(usize),
    /// (reader) a foreign message that carries a different ephemeral and is cut right after it: fails on length after
    /// the "e" token was processed; then the genuine message
    ForeignEphemeralThenShort,
}

fn indicators(hs: &snow::HandshakeState) -> (bool, bool, bool) {
    (hs.is_my_turn(), hs.is_handshake_finished(), hs.is_initiator())
}

/// Message k (0-based) of (pat, psk_mask): the party whose turn it is runs the real `write_message` with a
/// PLEN-byte symbolic payload; everything is compared with the reference model's WriteMessage.
pub fn step_write<const HL: usize, const PL: usize, const DL: usize, const PLEN: usize>(pat: Pat, psk_mask: u16, k: usize) {
    step_write_pre::<HL, PL, DL, PLEN>(pat, psk_mask, k, Pre::None)
}

pub fn step_write_pre<const HL: usize, const PL: usize, const DL: usize, const PLEN: usize>(pat: Pat, psk_mask: u16, k: usize, pre: Pre) {
    let pro: [u8; 2] = kani::any();
    let mut pair = rm_pair::<Toy<HL, PL, DL>>(pat, psk_mask, NAME.as_bytes(), &pro);
    rm_advance::<Toy<HL, PL, DL>>(&mut pair, k);
    let mut rmw = if k % 2 == 0 { pair.i } else { pair.r };

    let mut hs = match pre {
        Pre::MissingPsk(_) => {
            let mut lacking = rmw;
            lacking.psk_set = 0;
            snow_from_rm_a::<HL, PL, DL>(&lacking, NAME, false)
        },
        _ => snow_from_rm_a::<HL, PL, DL>(&rmw, NAME, false),
    };
    let e: [u8; 8] = kani::any();
    set_rng_slot(0, &e);
    let payload: [u8; PLEN] = kani::any();
    let mut buf_s = [0u8; MSGBUF];
    let mut buf_r = [0u8; MSGBUF];
    if pre != Pre::None {
        let ind0 = indicators(&hs);
        let hh0 = hs.get_handshake_hash().to_vec();
        let other: [u8; PLEN] = kani::any();
        let r = match pre {
            Pre::SmallBuf(cap) => hs.write_message(&other, &mut buf_s[..cap]),
            Pre::MissingPsk(_) => hs.write_message(&other, &mut buf_s),
            _ => {
                let junk: [u8; 6] = kani::any();
                let mut o = [0u8; 8];
                hs.read_message(&junk, &mut o)
            },
        };
        assert!(r.is_err(), "C14: a call that must be refused (undersized buffer, out-of-turn call, missing PSK, truncated message) succeeded");
        if let Pre::MissingPsk(slot) = pre {
            assert!(r == Err(snow::Error::State(snow::error::StateProblem::MissingPsk)), "C12: a PSK that was not supplied must be reported as MissingPsk at the message that needs it");
            assert!(hs.set_psk(slot, &rmw.psks[slot]).is_ok(), "C10: set_psk with a valid slot and a 32-byte key failed");
        }
        if pre == Pre::OutOfTurn {
            assert!(r == Err(snow::Error::State(snow::error::StateProblem::NotTurnToRead)), "C11: out-of-turn read must report NotTurnToRead");
        }
        assert!(indicators(&hs) == ind0, "C07: a failed call changed turn / finished indicators");
        assert!(hs.get_handshake_hash() == &hh0[..], "C07: a failed call changed the handshake hash");
        // the failed attempt drew an ephemeral from slot 0 (if the message has one); the retry draws from the next slot
        if rng_draws() == 1 {
            set_rng_slot(1, &e);
        }
        unsafe {
            RNG_DRAWS_BASE = RNG_DRAWS;
            RNG_BYTES_BASE = RNG_BYTES;
        }
    }
    let rs = hs.write_message(&payload, &mut buf_s);
    let mut ok = true;
    let nr = HsOps::<Toy<HL, PL, DL>>::write(&mut rmw, &e[..PL], &payload, &mut buf_r, &mut ok);
    kani::cover!(ok, "C01 step_write reached");
    assert!(rs.is_ok(), "C01: write_message failed where the specification succeeds");
    let ns = match rs {
        Ok(n) => n,
        Err(_) => 0,
    };
    assert!(ns == nr, "C01: handshake message length differs from specification");
    assert_prefix_eq!(buf_s, buf_r, nr, MSGBUF, "C01: handshake message bytes differ from specification");
    let snap = verif::snapshot(&hs);
    let d = diff_state::<Toy<HL, PL, DL>>(&snap, EP_A, &rmw);
    assert!(d == 0, "C01: post-write state differs from specification");
    let hh = hs.get_handshake_hash();
    assert!(hh.len() == HL, "C01: handshake hash length");
    assert_prefix_eq!(hh, rmw.sym.h, HL, HL, "C01: handshake hash differs from specification");
    assert!(hs.was_write_payload_encrypted() == rmw.sym.has_k, "C01: payload-encrypted indication");
    assert!(hs.is_handshake_finished() == (rmw.pos == pat.nmsgs()), "C01: finished indication");
    let want_draw = if has_e_token(pat, k) { 1 } else { 0 };
    assert!(rng_draws_since() == want_draw && rng_bytes_since() == want_draw * PL, "C01: ephemeral not drawn from the RNG during the write");
    if rmw.pos == pat.nmsgs() {
        let k1 = cipher_key(EP_A.c1);
        let k2 = cipher_key(EP_A.c2);
        assert_prefix_eq!(k1, rmw.k1, 32, 32, "C01: Split() key 1 differs from specification");
        assert_prefix_eq!(k2, rmw.k2, 32, 32, "C01: Split() key 2 differs from specification");
        assert!(verif::split_nonces(&hs) == (0, 0), "C01: transport nonces do not start at 0");
    }
}

/// Message k: the peer (reference model) writes it, the real `read_message` reads it.
pub fn step_read<const HL: usize, const PL: usize, const DL: usize, const PLEN: usize>(pat: Pat, psk_mask: u16, k: usize) {
    step_read_pre::<HL, PL, DL, PLEN>(pat, psk_mask, k, Pre::None)
}

pub fn step_read_pre<const HL: usize, const PL: usize, const DL: usize, const PLEN: usize>(pat: Pat, psk_mask: u16, k: usize, pre: Pre) {
    if pre == Pre::ForeignEphemeralThenShort {
        // only the foreign ephemeral and the payload are symbolic here: with everything symbolic a snow that keeps the
        // foreign value makes the query a search through two different xor circuits, which CaDiCaL did not finish in 10 min
        unsafe {
            CONCRETE_INPUTS = true;
        }
    }
    let p8 = sym8();
    let pro: [u8; 2] = [p8[0], p8[1]];
    let mut pair = rm_pair::<Toy<HL, PL, DL>>(pat, psk_mask, NAME.as_bytes(), &pro);
    rm_advance::<Toy<HL, PL, DL>>(&mut pair, k);
    let (mut rmw, mut rmr) = if k % 2 == 0 { (pair.i, pair.r) } else { (pair.r, pair.i) };

    let mut hs = match pre {
        Pre::MissingPsk(_) => {
            let mut lacking = rmr;
            lacking.psk_set = 0;
            snow_from_rm_a::<HL, PL, DL>(&lacking, NAME, false)
        },
        _ => snow_from_rm_a::<HL, PL, DL>(&rmr, NAME, false),
    };
    let e: [u8; 8] = sym8();
    let payload: [u8; PLEN] = kani::any();
    let mut msg = [0u8; MSGBUF];
    let mut ok = true;
    let n = HsOps::<Toy<HL, PL, DL>>::write(&mut rmw, &e[..PL], &payload, &mut msg, &mut ok);
    let mut out_s = [0u8; 8];
    let mut out_r = [0u8; 8];
    if pre != Pre::None {
        let ind0 = indicators(&hs);
        let hh0 = hs.get_handshake_hash().to_vec();
        let r = match pre {
            Pre::SmallPayloadBuf => hs.read_message(&msg[..n], &mut out_s[..PLEN - 1]),
            Pre::MissingPsk(_) => hs.read_message(&msg[..n], &mut out_s),
            Pre::ForeignEphemeralThenShort => {
                let foreign: [u8; PL] = kani::any();
                hs.read_message(&foreign, &mut out_s)
            },
            _ => {
                let junk: [u8; 2] = kani::any();
                let mut b = [0u8; MSGBUF];
                hs.write_message(&junk, &mut b)
            },
        };
        assert!(r.is_err(), "C14: a call that must be refused (undersized buffer, out-of-turn call, missing PSK, truncated message) succeeded");
        if pre == Pre::OutOfTurn {
            assert!(r == Err(snow::Error::State(snow::error::StateProblem::NotTurnToWrite)), "C11: out-of-turn write must report NotTurnToWrite");
        }
        if let Pre::MissingPsk(slot) = pre {
            assert!(r == Err(snow::Error::State(snow::error::StateProblem::MissingPsk)), "C12: a PSK that was not supplied must be reported as MissingPsk at the message that needs it");
            assert!(hs.set_psk(slot, &rmr.psks[slot]).is_ok(), "C10: set_psk with a valid slot and a 32-byte key failed");
        }
        assert!(indicators(&hs) == ind0, "C07: a failed call changed turn / finished indicators");
        assert!(hs.get_handshake_hash() == &hh0[..], "C07: a failed call changed the handshake hash");
    }
    let rs = hs.read_message(&msg[..n], &mut out_s);
    let nr = HsOps::<Toy<HL, PL, DL>>::read(&mut rmr, &msg[..n], &mut out_r, &mut ok);
    kani::cover!(ok, "C01 step_read reached");
    assert!(ok && nr == PLEN, "RM self-consistency");
    assert!(rs.is_ok(), "C01: read_message rejects the specification's message");
    let ns = match rs {
        Ok(n) => n,
        Err(_) => 0,
    };
    assert!(ns == PLEN, "C01: payload length returned by read_message");
    assert_prefix_eq!(out_s, payload, PLEN, PLEN, "C01: payload bytes returned by read_message");
    let snap = verif::snapshot(&hs);
    let d = diff_state::<Toy<HL, PL, DL>>(&snap, EP_A, &rmr);
    assert!(d == 0, "C01: post-read state differs from specification");
    let hh = hs.get_handshake_hash();
    assert_prefix_eq!(hh, rmr.sym.h, HL, HL, "C01: handshake hash differs from specification");
    assert!(hs.is_handshake_finished() == (rmr.pos == pat.nmsgs()), "C01: finished indication");
    assert!(rng_draws() == 0, "C01: randomness drawn by a read");
    if rmr.pos == pat.nmsgs() {
        let k1 = cipher_key(EP_A.c1);
        let k2 = cipher_key(EP_A.c2);
        assert_prefix_eq!(k1, rmr.k1, 32, 32, "C01: Split() key 1 differs from specification");
        assert_prefix_eq!(k2, rmr.k2, 32, 32, "C01: Split() key 2 differs from specification");
    }
}

macro_rules! step_harness {
    ($name:ident, $f:ident, $hl:expr, $pl:expr, $dl:expr, $plen:expr, $pat:expr, $mask:expr, $k:expr, $unw:expr) => {
        #[kani::proof]
        #[kani::unwind($unw)]
        pub fn $name() {
            $f::<$hl, $pl, $dl, $plen>($pat, $mask, $k);
        }
    };
}

step_harness!(c01_q_step_nn_w0, step_write, 8, 4, 4, 2, Pat::NN, 0, 0, 34);
step_harness!(c01_q_step_nn_r0, step_read, 8, 4, 4, 1, Pat::NN, 0, 0, 34);
step_harness!(c01_q_step_nn_w1, step_write, 8, 4, 4, 0, Pat::NN, 0, 1, 34);
step_harness!(c01_q_step_xx_w1, step_write, 8, 4, 4, 2, Pat::XX, 0, 1, 34);
step_harness!(c01_q_step_xx_r2, step_read, 8, 4, 4, 1, Pat::XX, 0, 2, 34);

// ------------------------------------------------------------------------------------------------- init

/// The real `HandshakeState::new` (as `Builder::build` calls it) vs the specification's Initialize: protocol
/// name shorter than / equal to / longer than HASHLEN, symbolic prologue, pre-message keys in the
/// specification's order; every field the other harnesses start from.
pub fn init_case<const HL: usize>(pat: Pat, psk_mask: u16, initiator: bool, name: &'static str, prolen: usize) {
    use crate::prims::Prims;
    let pro: [u8; 3] = kani::any();
    let si: [u8; 8] = kani::any();
    let rs_pub: [u8; 8] = kani::any();
    let need_s = pat.needs_local_static(initiator);
    let need_rs = pat.needs_remote_static(initiator);
    let rm = HsOps::<Toy<HL, 4, 4>>::initialize(
        pat,
        psk_mask,
        initiator,
        name.as_bytes(),
        &pro[..prolen],
        if need_s { Some(&si[..4]) } else { None },
        if need_rs { Some(&rs_pub[..4]) } else { None },
        [[0u8; 32]; 10],
        0,
    );
    if need_s {
        dh_set_priv(0, 4, &si);
    }
    let mut rs_arr = [0u8; verif::MAXDHLEN];
    let mut j = 0;
    while j < 4 {
        rs_arr[j] = rs_pub[j];
        j += 1;
    }
    let r = verif::handshake_new(
        Box::new(SRng),
        Box::new(SCipher::<0>),
        Box::new(SHash::<HL, 0>),
        Box::new(SDh::<4, 4, 0>),
        need_s,
        Box::new(SDh::<4, 4, 1>),
        false,
        rs_arr,
        need_rs,
        initiator,
        mk_params(name, pat, psk_mask),
        &[None; 10],
        &pro[..prolen],
        Box::new(SCipher::<1>),
        Box::new(SCipher::<2>),
    );
    kani::cover!(r.is_ok(), "C01 init reachable");
    assert!(r.is_ok(), "C01: HandshakeState::new failed for a complete configuration");
    if let Ok(hs) = r {
        let snap = verif::snapshot(&hs);
        let d = diff_state::<Toy<HL, 4, 4>>(&snap, EP_A, &rm);
        assert!(d == 0, "C01: initial handshake state differs from the specification's Initialize");
        assert!(snap.pattern_len == pat.nmsgs(), "C01: number of messages of the pattern");
        let hh = hs.get_handshake_hash();
        assert!(hh.len() == HL, "C01: handshake hash length");
        assert_prefix_eq!(hh, rm.sym.h, HL, HL, "C01: initial handshake hash differs from the specification");
        assert!(!hs.was_write_payload_encrypted() && !hs.is_handshake_finished() && hs.is_my_turn() == initiator, "C01: initial indicators");
        core::mem::forget(hs);
    }
    let _ = <Toy<HL, 4, 4> as Prims>::HL;
}

macro_rules! init_harness {
    ($name:ident, $hl:expr, $pat:expr, $mask:expr, $ini:expr, $nm:expr, $plen:expr) => {
        #[kani::proof]
        #[kani::unwind(66)]
        pub fn $name() {
            init_case::<$hl>($pat, $mask, $ini, $nm, $plen);
        }
    };
}
init_harness!(c01_q_init_kk_i_longname, 8, Pat::KK, 0, true, "Noise_KK_25519_ChaChaPoly_SHA256", 3);
init_harness!(c01_q_init_kk_r_name_eq_hashlen, 32, Pat::KK, 0, false, "Noise_KK_25519_ChaChaPoly_SHA256", 2);
init_harness!(c01_q_init_nk_i_shortname, 32, Pat::NK, 0, true, "Noise_NK", 0);
init_harness!(c01_q_init_k_r_hl64, 64, Pat::K, 0, false, "Noise_K_25519_ChaChaPoly_BLAKE2b", 1);
init_harness!(c01_t_init_xx_i, 8, Pat::XX, 0, true, "Noise_XX_25519_ChaChaPoly_SHA256", 2);
init_harness!(c01_t_init_x_r, 8, Pat::X, 0, false, "Noise_X_25519_ChaChaPoly_SHA256", 2);
init_harness!(c01_t_init_ik_r, 8, Pat::IK, 0, false, "Noise_IK_25519_ChaChaPoly_SHA256", 2);
init_harness!(c01_t_init_kx1_i, 8, Pat::KX1, 0, true, "Noise_KX1_25519_ChaChaPoly_SHA256", 2);

// -------------------------------------------------------------------------------------------- transport

/// After the last message: real conversions, then transport messages == ENCRYPT(k1 / k2, n, "", p) of the
/// specification (initiator sends with the first Split() output), stateful (nonces 0, 1) and stateless (symbolic n).
pub fn transport_tail<const HL: usize>(pat: Pat, initiator: bool, stateless: bool) {
    use crate::prims::Prims;
    use snow::error::StateProblem;
    let pro: [u8; 2] = kani::any();
    let mut pair = rm_pair::<Toy<HL, 4, 4>>(pat, 0, NAME.as_bytes(), &pro);
    rm_advance::<Toy<HL, 4, 4>>(&mut pair, pat.nmsgs());
    let rm = if initiator { pair.i } else { pair.r };
    kani::cover!(true, "C01 transport tail reached");
    let tr = TrOps::<Toy<HL, 4, 4>>::from_hs(&rm);
    let hs = snow_from_rm_a::<HL, 4, 4>(&rm, NAME, false);
    // the cipher objects the handshake state holds for transport carry the Split() keys (set by the last step)
    set_cipher_key(EP_A.c1, &rm.k1);
    set_cipher_key(EP_A.c2, &rm.k2);
    let p1: [u8; 2] = kani::any();
    let p2: [u8; 2] = kani::any();
    let mut m1 = [0u8; 18];
    let mut m2 = [0u8; 18];
    let mut w1 = [0u8; 18];
    let mut w2 = [0u8; 18];
    let may_write = initiator || !pat.is_oneway();
    if stateless {
        let ts = hs.into_stateless_transport_mode();
        assert!(ts.is_ok(), "C01: stateless conversion after the last message failed");
        if let Ok(ts) = ts {
            let n: u64 = kani::any();
            kani::assume(n != u64::MAX);
            let r = ts.write_message(n, &p1, &mut m1);
            if may_write {
                TrOps::<Toy<HL, 4, 4>>::write_at(&tr, n, &p1, &mut w1);
                assert!(r == Ok(18) && m1 == w1, "C01: stateless transport message differs from the specification's ENCRYPT(k, n, \"\", payload)");
            } else {
                assert!(r == Err(snow::Error::State(StateProblem::OneWay)), "C01: responder of a one-way pattern wrote a transport message");
            }
            core::mem::forget(ts);
        }
    } else {
        let ts = hs.into_transport_mode();
        assert!(ts.is_ok(), "C01: conversion after the last message failed");
        if let Ok(mut ts) = ts {
            assert!(ts.sending_nonce() == 0 && ts.receiving_nonce() == 0, "C01: transport nonces do not start at 0");
            let r1 = ts.write_message(&p1, &mut m1);
            let r2 = ts.write_message(&p2, &mut m2);
            if may_write {
                TrOps::<Toy<HL, 4, 4>>::write_at(&tr, 0, &p1, &mut w1);
                TrOps::<Toy<HL, 4, 4>>::write_at(&tr, 1, &p2, &mut w2);
                assert!(r1 == Ok(18) && m1 == w1, "C01: first transport message differs from the specification");
                assert!(r2 == Ok(18) && m2 == w2, "C01: second transport message differs from the specification");
            } else {
                assert!(r1 == Err(snow::Error::State(StateProblem::OneWay)), "C01: responder of a one-way pattern wrote a transport message");
            }
            core::mem::forget(ts);
        }
    }
    let _ = <Toy<HL, 4, 4> as Prims>::HL;
}

macro_rules! transport_harness {
    ($name:ident, $pat:expr, $ini:expr, $sl:expr) => {
        #[kani::proof]
        #[kani::unwind(34)]
        pub fn $name() {
            transport_tail::<8>($pat, $ini, $sl);
        }
    };
}
transport_harness!(c01_q_transport_nn_i_stateful, Pat::NN, true, false);
transport_harness!(c01_q_transport_nn_r_stateless, Pat::NN, false, true);
transport_harness!(c01_q_transport_n_r_stateful, Pat::N, false, false);
transport_harness!(c01_t_transport_xx_r_stateful, Pat::XX, false, false);
transport_harness!(c01_t_transport_n_i_stateless, Pat::N, true, true);

// last message over a 64-byte toy hash: MixKey and Split() truncate their HKDF outputs to 32 bytes (HASHLEN 64 branch)
step_harness!(c01_q_step_nn_w1_hl64, step_write, 64, 4, 4, 1, Pat::NN, 0, 1, 66);
step_harness!(c01_t_step_nn_r1_hl64, step_read, 64, 4, 4, 1, Pat::NN, 0, 1, 66);

// more step harnesses (quick): one per token kind / position class / role
step_harness!(c01_q_step_ik_w0, step_write, 8, 4, 4, 2, Pat::IK, 0, 0, 34);
step_harness!(c01_q_step_ik_r1, step_read, 8, 4, 4, 1, Pat::IK, 0, 1, 34);
step_harness!(c01_q_step_nnpsk0_w0, step_write, 8, 4, 4, 2, Pat::NN, 1, 0, 34);
step_harness!(c01_q_step_nnpsk2_r1, step_read, 8, 4, 4, 1, Pat::NN, 4, 1, 34);
step_harness!(c01_q_step_x1n_w2, step_write, 8, 4, 4, 0, Pat::X1N, 0, 2, 34);
step_harness!(c01_q_step_kk_r0, step_read, 8, 4, 4, 2, Pat::KK, 0, 0, 34);
step_harness!(c01_q_step_n_w0, step_write, 8, 4, 4, 2, Pat::N, 0, 0, 34);
step_harness!(c01_q_step_xx_w1_p256shape, step_write, 8, 5, 3, 1, Pat::XX, 0, 1, 34);
step_harness!(c01_q_step_nn_w0_hl32, step_write, 32, 4, 4, 1, Pat::NN, 0, 0, 34);
step_harness!(c01_t_step_nnpsk0_r0_hl64, step_read, 64, 4, 4, 1, Pat::NN, 1, 0, 66);
step_harness!(c01_q_step_nnpsk0psk1_w0, step_write, 8, 4, 4, 1, Pat::NN, 3, 0, 34);
step_harness!(c01_q_step_xxpsk2_w1, step_write, 8, 4, 4, 1, Pat::XX, 4, 1, 34);

// thorough: generated list
step_harness!(c01_t_step_n_w0, step_write, 8, 4, 4, 0, Pat::N, 0, 0, 34);
step_harness!(c01_t_step_n_r0, step_read, 8, 4, 4, 1, Pat::N, 0, 0, 34);
step_harness!(c01_t_step_x_w0, step_write, 8, 4, 4, 0, Pat::X, 0, 0, 34);
step_harness!(c01_t_step_x_r0, step_read, 8, 4, 4, 1, Pat::X, 0, 0, 34);
step_harness!(c01_t_step_k_w0, step_write, 8, 4, 4, 0, Pat::K, 0, 0, 34);
step_harness!(c01_t_step_k_r0, step_read, 8, 4, 4, 1, Pat::K, 0, 0, 34);
step_harness!(c01_t_step_nn_w0, step_write, 8, 4, 4, 0, Pat::NN, 0, 0, 34);
step_harness!(c01_t_step_nn_r0, step_read, 8, 4, 4, 1, Pat::NN, 0, 0, 34);
step_harness!(c01_t_step_nn_w1, step_write, 8, 4, 4, 1, Pat::NN, 0, 1, 34);
step_harness!(c01_t_step_nn_r1, step_read, 8, 4, 4, 2, Pat::NN, 0, 1, 34);
step_harness!(c01_t_step_nk_w0, step_write, 8, 4, 4, 0, Pat::NK, 0, 0, 34);
step_harness!(c01_t_step_nk_r0, step_read, 8, 4, 4, 1, Pat::NK, 0, 0, 34);
step_harness!(c01_t_step_nk_w1, step_write, 8, 4, 4, 1, Pat::NK, 0, 1, 34);
step_harness!(c01_t_step_nk_r1, step_read, 8, 4, 4, 2, Pat::NK, 0, 1, 34);
step_harness!(c01_t_step_nx_w0, step_write, 8, 4, 4, 0, Pat::NX, 0, 0, 34);
step_harness!(c01_t_step_nx_r0, step_read, 8, 4, 4, 1, Pat::NX, 0, 0, 34);
step_harness!(c01_t_step_nx_w1, step_write, 8, 4, 4, 1, Pat::NX, 0, 1, 34);
step_harness!(c01_t_step_nx_r1, step_read, 8, 4, 4, 2, Pat::NX, 0, 1, 34);
step_harness!(c01_t_step_xn_w0, step_write, 8, 4, 4, 0, Pat::XN, 0, 0, 34);
step_harness!(c01_t_step_xn_r0, step_read, 8, 4, 4, 1, Pat::XN, 0, 0, 34);
step_harness!(c01_t_step_xn_w1, step_write, 8, 4, 4, 1, Pat::XN, 0, 1, 34);
step_harness!(c01_t_step_xn_r1, step_read, 8, 4, 4, 2, Pat::XN, 0, 1, 34);
step_harness!(c01_t_step_xn_w2, step_write, 8, 4, 4, 2, Pat::XN, 0, 2, 34);
step_harness!(c01_t_step_xn_r2, step_read, 8, 4, 4, 0, Pat::XN, 0, 2, 34);
step_harness!(c01_t_step_xk_w0, step_write, 8, 4, 4, 0, Pat::XK, 0, 0, 34);
step_harness!(c01_t_step_xk_r0, step_read, 8, 4, 4, 1, Pat::XK, 0, 0, 34);
step_harness!(c01_t_step_xk_w1, step_write, 8, 4, 4, 1, Pat::XK, 0, 1, 34);
step_harness!(c01_t_step_xk_r1, step_read, 8, 4, 4, 2, Pat::XK, 0, 1, 34);
step_harness!(c01_t_step_xk_w2, step_write, 8, 4, 4, 2, Pat::XK, 0, 2, 34);
step_harness!(c01_t_step_xk_r2, step_read, 8, 4, 4, 0, Pat::XK, 0, 2, 34);
step_harness!(c01_t_step_xx_w0, step_write, 8, 4, 4, 0, Pat::XX, 0, 0, 34);
step_harness!(c01_t_step_xx_r0, step_read, 8, 4, 4, 1, Pat::XX, 0, 0, 34);
step_harness!(c01_t_step_xx_w1, step_write, 8, 4, 4, 1, Pat::XX, 0, 1, 34);
step_harness!(c01_t_step_xx_r1, step_read, 8, 4, 4, 2, Pat::XX, 0, 1, 34);
step_harness!(c01_t_step_xx_w2, step_write, 8, 4, 4, 2, Pat::XX, 0, 2, 34);
step_harness!(c01_t_step_xx_r2, step_read, 8, 4, 4, 0, Pat::XX, 0, 2, 34);
step_harness!(c01_t_step_kn_w0, step_write, 8, 4, 4, 0, Pat::KN, 0, 0, 34);
step_harness!(c01_t_step_kn_r0, step_read, 8, 4, 4, 1, Pat::KN, 0, 0, 34);
step_harness!(c01_t_step_kn_w1, step_write, 8, 4, 4, 1, Pat::KN, 0, 1, 34);
step_harness!(c01_t_step_kn_r1, step_read, 8, 4, 4, 2, Pat::KN, 0, 1, 34);
step_harness!(c01_t_step_kk_w0, step_write, 8, 4, 4, 0, Pat::KK, 0, 0, 34);
step_harness!(c01_t_step_kk_r0, step_read, 8, 4, 4, 1, Pat::KK, 0, 0, 34);
step_harness!(c01_t_step_kk_w1, step_write, 8, 4, 4, 1, Pat::KK, 0, 1, 34);
step_harness!(c01_t_step_kk_r1, step_read, 8, 4, 4, 2, Pat::KK, 0, 1, 34);
step_harness!(c01_t_step_kx_w0, step_write, 8, 4, 4, 0, Pat::KX, 0, 0, 34);
step_harness!(c01_t_step_kx_r0, step_read, 8, 4, 4, 1, Pat::KX, 0, 0, 34);
step_harness!(c01_t_step_kx_w1, step_write, 8, 4, 4, 1, Pat::KX, 0, 1, 34);
step_harness!(c01_t_step_kx_r1, step_read, 8, 4, 4, 2, Pat::KX, 0, 1, 34);
step_harness!(c01_t_step_in_w0, step_write, 8, 4, 4, 0, Pat::IN, 0, 0, 34);
step_harness!(c01_t_step_in_r0, step_read, 8, 4, 4, 1, Pat::IN, 0, 0, 34);
step_harness!(c01_t_step_in_w1, step_write, 8, 4, 4, 1, Pat::IN, 0, 1, 34);
step_harness!(c01_t_step_in_r1, step_read, 8, 4, 4, 2, Pat::IN, 0, 1, 34);
step_harness!(c01_t_step_ik_w0, step_write, 8, 4, 4, 0, Pat::IK, 0, 0, 34);
step_harness!(c01_t_step_ik_r0, step_read, 8, 4, 4, 1, Pat::IK, 0, 0, 34);
step_harness!(c01_t_step_ik_w1, step_write, 8, 4, 4, 1, Pat::IK, 0, 1, 34);
step_harness!(c01_t_step_ik_r1, step_read, 8, 4, 4, 2, Pat::IK, 0, 1, 34);
step_harness!(c01_t_step_ix_w0, step_write, 8, 4, 4, 0, Pat::IX, 0, 0, 34);
step_harness!(c01_t_step_ix_r0, step_read, 8, 4, 4, 1, Pat::IX, 0, 0, 34);
step_harness!(c01_t_step_ix_w1, step_write, 8, 4, 4, 1, Pat::IX, 0, 1, 34);
step_harness!(c01_t_step_ix_r1, step_read, 8, 4, 4, 2, Pat::IX, 0, 1, 34);
step_harness!(c01_t_step_nk1_w0, step_write, 8, 4, 4, 0, Pat::NK1, 0, 0, 34);
step_harness!(c01_t_step_nk1_r0, step_read, 8, 4, 4, 1, Pat::NK1, 0, 0, 34);
step_harness!(c01_t_step_nk1_w1, step_write, 8, 4, 4, 1, Pat::NK1, 0, 1, 34);
step_harness!(c01_t_step_nk1_r1, step_read, 8, 4, 4, 2, Pat::NK1, 0, 1, 34);
step_harness!(c01_t_step_nx1_w0, step_write, 8, 4, 4, 0, Pat::NX1, 0, 0, 34);
step_harness!(c01_t_step_nx1_r0, step_read, 8, 4, 4, 1, Pat::NX1, 0, 0, 34);
step_harness!(c01_t_step_nx1_w1, step_write, 8, 4, 4, 1, Pat::NX1, 0, 1, 34);
step_harness!(c01_t_step_nx1_r1, step_read, 8, 4, 4, 2, Pat::NX1, 0, 1, 34);
step_harness!(c01_t_step_nx1_w2, step_write, 8, 4, 4, 2, Pat::NX1, 0, 2, 34);
step_harness!(c01_t_step_nx1_r2, step_read, 8, 4, 4, 0, Pat::NX1, 0, 2, 34);
step_harness!(c01_t_step_x1n_w0, step_write, 8, 4, 4, 0, Pat::X1N, 0, 0, 34);
step_harness!(c01_t_step_x1n_r0, step_read, 8, 4, 4, 1, Pat::X1N, 0, 0, 34);
step_harness!(c01_t_step_x1n_w1, step_write, 8, 4, 4, 1, Pat::X1N, 0, 1, 34);
step_harness!(c01_t_step_x1n_r1, step_read, 8, 4, 4, 2, Pat::X1N, 0, 1, 34);
step_harness!(c01_t_step_x1n_w2, step_write, 8, 4, 4, 2, Pat::X1N, 0, 2, 34);
step_harness!(c01_t_step_x1n_r2, step_read, 8, 4, 4, 0, Pat::X1N, 0, 2, 34);
step_harness!(c01_t_step_x1n_w3, step_write, 8, 4, 4, 0, Pat::X1N, 0, 3, 34);
step_harness!(c01_t_step_x1n_r3, step_read, 8, 4, 4, 1, Pat::X1N, 0, 3, 34);
step_harness!(c01_t_step_x1k_w0, step_write, 8, 4, 4, 0, Pat::X1K, 0, 0, 34);
step_harness!(c01_t_step_x1k_r0, step_read, 8, 4, 4, 1, Pat::X1K, 0, 0, 34);
step_harness!(c01_t_step_x1k_w1, step_write, 8, 4, 4, 1, Pat::X1K, 0, 1, 34);
step_harness!(c01_t_step_x1k_r1, step_read, 8, 4, 4, 2, Pat::X1K, 0, 1, 34);
step_harness!(c01_t_step_x1k_w2, step_write, 8, 4, 4, 2, Pat::X1K, 0, 2, 34);
step_harness!(c01_t_step_x1k_r2, step_read, 8, 4, 4, 0, Pat::X1K, 0, 2, 34);
step_harness!(c01_t_step_x1k_w3, step_write, 8, 4, 4, 0, Pat::X1K, 0, 3, 34);
step_harness!(c01_t_step_x1k_r3, step_read, 8, 4, 4, 1, Pat::X1K, 0, 3, 34);
step_harness!(c01_t_step_xk1_w0, step_write, 8, 4, 4, 0, Pat::XK1, 0, 0, 34);
step_harness!(c01_t_step_xk1_r0, step_read, 8, 4, 4, 1, Pat::XK1, 0, 0, 34);
step_harness!(c01_t_step_xk1_w1, step_write, 8, 4, 4, 1, Pat::XK1, 0, 1, 34);
step_harness!(c01_t_step_xk1_r1, step_read, 8, 4, 4, 2, Pat::XK1, 0, 1, 34);
step_harness!(c01_t_step_xk1_w2, step_write, 8, 4, 4, 2, Pat::XK1, 0, 2, 34);
step_harness!(c01_t_step_xk1_r2, step_read, 8, 4, 4, 0, Pat::XK1, 0, 2, 34);
step_harness!(c01_t_step_x1k1_w0, step_write, 8, 4, 4, 0, Pat::X1K1, 0, 0, 34);
step_harness!(c01_t_step_x1k1_r0, step_read, 8, 4, 4, 1, Pat::X1K1, 0, 0, 34);
step_harness!(c01_t_step_x1k1_w1, step_write, 8, 4, 4, 1, Pat::X1K1, 0, 1, 34);
step_harness!(c01_t_step_x1k1_r1, step_read, 8, 4, 4, 2, Pat::X1K1, 0, 1, 34);
step_harness!(c01_t_step_x1k1_w2, step_write, 8, 4, 4, 2, Pat::X1K1, 0, 2, 34);
step_harness!(c01_t_step_x1k1_r2, step_read, 8, 4, 4, 0, Pat::X1K1, 0, 2, 34);
step_harness!(c01_t_step_x1k1_w3, step_write, 8, 4, 4, 0, Pat::X1K1, 0, 3, 34);
step_harness!(c01_t_step_x1k1_r3, step_read, 8, 4, 4, 1, Pat::X1K1, 0, 3, 34);
step_harness!(c01_t_step_x1x_w0, step_write, 8, 4, 4, 0, Pat::X1X, 0, 0, 34);
step_harness!(c01_t_step_x1x_r0, step_read, 8, 4, 4, 1, Pat::X1X, 0, 0, 34);
step_harness!(c01_t_step_x1x_w1, step_write, 8, 4, 4, 1, Pat::X1X, 0, 1, 34);
step_harness!(c01_t_step_x1x_r1, step_read, 8, 4, 4, 2, Pat::X1X, 0, 1, 34);
step_harness!(c01_t_step_x1x_w2, step_write, 8, 4, 4, 2, Pat::X1X, 0, 2, 34);
step_harness!(c01_t_step_x1x_r2, step_read, 8, 4, 4, 0, Pat::X1X, 0, 2, 34);
step_harness!(c01_t_step_x1x_w3, step_write, 8, 4, 4, 0, Pat::X1X, 0, 3, 34);
step_harness!(c01_t_step_x1x_r3, step_read, 8, 4, 4, 1, Pat::X1X, 0, 3, 34);
step_harness!(c01_t_step_xx1_w0, step_write, 8, 4, 4, 0, Pat::XX1, 0, 0, 34);
step_harness!(c01_t_step_xx1_r0, step_read, 8, 4, 4, 1, Pat::XX1, 0, 0, 34);
step_harness!(c01_t_step_xx1_w1, step_write, 8, 4, 4, 1, Pat::XX1, 0, 1, 34);
step_harness!(c01_t_step_xx1_r1, step_read, 8, 4, 4, 2, Pat::XX1, 0, 1, 34);
step_harness!(c01_t_step_xx1_w2, step_write, 8, 4, 4, 2, Pat::XX1, 0, 2, 34);
step_harness!(c01_t_step_xx1_r2, step_read, 8, 4, 4, 0, Pat::XX1, 0, 2, 34);
step_harness!(c01_t_step_x1x1_w0, step_write, 8, 4, 4, 0, Pat::X1X1, 0, 0, 34);
step_harness!(c01_t_step_x1x1_r0, step_read, 8, 4, 4, 1, Pat::X1X1, 0, 0, 34);
step_harness!(c01_t_step_x1x1_w1, step_write, 8, 4, 4, 1, Pat::X1X1, 0, 1, 34);
step_harness!(c01_t_step_x1x1_r1, step_read, 8, 4, 4, 2, Pat::X1X1, 0, 1, 34);
step_harness!(c01_t_step_x1x1_w2, step_write, 8, 4, 4, 2, Pat::X1X1, 0, 2, 34);
step_harness!(c01_t_step_x1x1_r2, step_read, 8, 4, 4, 0, Pat::X1X1, 0, 2, 34);
step_harness!(c01_t_step_x1x1_w3, step_write, 8, 4, 4, 0, Pat::X1X1, 0, 3, 34);
step_harness!(c01_t_step_x1x1_r3, step_read, 8, 4, 4, 1, Pat::X1X1, 0, 3, 34);
step_harness!(c01_t_step_k1n_w0, step_write, 8, 4, 4, 0, Pat::K1N, 0, 0, 34);
step_harness!(c01_t_step_k1n_r0, step_read, 8, 4, 4, 1, Pat::K1N, 0, 0, 34);
step_harness!(c01_t_step_k1n_w1, step_write, 8, 4, 4, 1, Pat::K1N, 0, 1, 34);
step_harness!(c01_t_step_k1n_r1, step_read, 8, 4, 4, 2, Pat::K1N, 0, 1, 34);
step_harness!(c01_t_step_k1n_w2, step_write, 8, 4, 4, 2, Pat::K1N, 0, 2, 34);
step_harness!(c01_t_step_k1n_r2, step_read, 8, 4, 4, 0, Pat::K1N, 0, 2, 34);
step_harness!(c01_t_step_k1k_w0, step_write, 8, 4, 4, 0, Pat::K1K, 0, 0, 34);
step_harness!(c01_t_step_k1k_r0, step_read, 8, 4, 4, 1, Pat::K1K, 0, 0, 34);
step_harness!(c01_t_step_k1k_w1, step_write, 8, 4, 4, 1, Pat::K1K, 0, 1, 34);
step_harness!(c01_t_step_k1k_r1, step_read, 8, 4, 4, 2, Pat::K1K, 0, 1, 34);
step_harness!(c01_t_step_k1k_w2, step_write, 8, 4, 4, 2, Pat::K1K, 0, 2, 34);
step_harness!(c01_t_step_k1k_r2, step_read, 8, 4, 4, 0, Pat::K1K, 0, 2, 34);
step_harness!(c01_t_step_kk1_w0, step_write, 8, 4, 4, 0, Pat::KK1, 0, 0, 34);
step_harness!(c01_t_step_kk1_r0, step_read, 8, 4, 4, 1, Pat::KK1, 0, 0, 34);
step_harness!(c01_t_step_kk1_w1, step_write, 8, 4, 4, 1, Pat::KK1, 0, 1, 34);
step_harness!(c01_t_step_kk1_r1, step_read, 8, 4, 4, 2, Pat::KK1, 0, 1, 34);
step_harness!(c01_t_step_k1k1_w0, step_write, 8, 4, 4, 0, Pat::K1K1, 0, 0, 34);
step_harness!(c01_t_step_k1k1_r0, step_read, 8, 4, 4, 1, Pat::K1K1, 0, 0, 34);
step_harness!(c01_t_step_k1k1_w1, step_write, 8, 4, 4, 1, Pat::K1K1, 0, 1, 34);
step_harness!(c01_t_step_k1k1_r1, step_read, 8, 4, 4, 2, Pat::K1K1, 0, 1, 34);
step_harness!(c01_t_step_k1k1_w2, step_write, 8, 4, 4, 2, Pat::K1K1, 0, 2, 34);
step_harness!(c01_t_step_k1k1_r2, step_read, 8, 4, 4, 0, Pat::K1K1, 0, 2, 34);
step_harness!(c01_t_step_k1x_w0, step_write, 8, 4, 4, 0, Pat::K1X, 0, 0, 34);
step_harness!(c01_t_step_k1x_r0, step_read, 8, 4, 4, 1, Pat::K1X, 0, 0, 34);
step_harness!(c01_t_step_k1x_w1, step_write, 8, 4, 4, 1, Pat::K1X, 0, 1, 34);
step_harness!(c01_t_step_k1x_r1, step_read, 8, 4, 4, 2, Pat::K1X, 0, 1, 34);
step_harness!(c01_t_step_k1x_w2, step_write, 8, 4, 4, 2, Pat::K1X, 0, 2, 34);
step_harness!(c01_t_step_k1x_r2, step_read, 8, 4, 4, 0, Pat::K1X, 0, 2, 34);
step_harness!(c01_t_step_kx1_w0, step_write, 8, 4, 4, 0, Pat::KX1, 0, 0, 34);
step_harness!(c01_t_step_kx1_r0, step_read, 8, 4, 4, 1, Pat::KX1, 0, 0, 34);
step_harness!(c01_t_step_kx1_w1, step_write, 8, 4, 4, 1, Pat::KX1, 0, 1, 34);
step_harness!(c01_t_step_kx1_r1, step_read, 8, 4, 4, 2, Pat::KX1, 0, 1, 34);
step_harness!(c01_t_step_kx1_w2, step_write, 8, 4, 4, 2, Pat::KX1, 0, 2, 34);
step_harness!(c01_t_step_kx1_r2, step_read, 8, 4, 4, 0, Pat::KX1, 0, 2, 34);
step_harness!(c01_t_step_k1x1_w0, step_write, 8, 4, 4, 0, Pat::K1X1, 0, 0, 34);
step_harness!(c01_t_step_k1x1_r0, step_read, 8, 4, 4, 1, Pat::K1X1, 0, 0, 34);
step_harness!(c01_t_step_k1x1_w1, step_write, 8, 4, 4, 1, Pat::K1X1, 0, 1, 34);
step_harness!(c01_t_step_k1x1_r1, step_read, 8, 4, 4, 2, Pat::K1X1, 0, 1, 34);
step_harness!(c01_t_step_k1x1_w2, step_write, 8, 4, 4, 2, Pat::K1X1, 0, 2, 34);
step_harness!(c01_t_step_k1x1_r2, step_read, 8, 4, 4, 0, Pat::K1X1, 0, 2, 34);
step_harness!(c01_t_step_i1n_w0, step_write, 8, 4, 4, 0, Pat::I1N, 0, 0, 34);
step_harness!(c01_t_step_i1n_r0, step_read, 8, 4, 4, 1, Pat::I1N, 0, 0, 34);
step_harness!(c01_t_step_i1n_w1, step_write, 8, 4, 4, 1, Pat::I1N, 0, 1, 34);
step_harness!(c01_t_step_i1n_r1, step_read, 8, 4, 4, 2, Pat::I1N, 0, 1, 34);
step_harness!(c01_t_step_i1n_w2, step_write, 8, 4, 4, 2, Pat::I1N, 0, 2, 34);
step_harness!(c01_t_step_i1n_r2, step_read, 8, 4, 4, 0, Pat::I1N, 0, 2, 34);
step_harness!(c01_t_step_i1k_w0, step_write, 8, 4, 4, 0, Pat::I1K, 0, 0, 34);
step_harness!(c01_t_step_i1k_r0, step_read, 8, 4, 4, 1, Pat::I1K, 0, 0, 34);
step_harness!(c01_t_step_i1k_w1, step_write, 8, 4, 4, 1, Pat::I1K, 0, 1, 34);
step_harness!(c01_t_step_i1k_r1, step_read, 8, 4, 4, 2, Pat::I1K, 0, 1, 34);
step_harness!(c01_t_step_i1k_w2, step_write, 8, 4, 4, 2, Pat::I1K, 0, 2, 34);
step_harness!(c01_t_step_i1k_r2, step_read, 8, 4, 4, 0, Pat::I1K, 0, 2, 34);
step_harness!(c01_t_step_ik1_w0, step_write, 8, 4, 4, 0, Pat::IK1, 0, 0, 34);
step_harness!(c01_t_step_ik1_r0, step_read, 8, 4, 4, 1, Pat::IK1, 0, 0, 34);
step_harness!(c01_t_step_ik1_w1, step_write, 8, 4, 4, 1, Pat::IK1, 0, 1, 34);
step_harness!(c01_t_step_ik1_r1, step_read, 8, 4, 4, 2, Pat::IK1, 0, 1, 34);
step_harness!(c01_t_step_i1k1_w0, step_write, 8, 4, 4, 0, Pat::I1K1, 0, 0, 34);
step_harness!(c01_t_step_i1k1_r0, step_read, 8, 4, 4, 1, Pat::I1K1, 0, 0, 34);
step_harness!(c01_t_step_i1k1_w1, step_write, 8, 4, 4, 1, Pat::I1K1, 0, 1, 34);
step_harness!(c01_t_step_i1k1_r1, step_read, 8, 4, 4, 2, Pat::I1K1, 0, 1, 34);
step_harness!(c01_t_step_i1k1_w2, step_write, 8, 4, 4, 2, Pat::I1K1, 0, 2, 34);
step_harness!(c01_t_step_i1k1_r2, step_read, 8, 4, 4, 0, Pat::I1K1, 0, 2, 34);
step_harness!(c01_t_step_i1x_w0, step_write, 8, 4, 4, 0, Pat::I1X, 0, 0, 34);
step_harness!(c01_t_step_i1x_r0, step_read, 8, 4, 4, 1, Pat::I1X, 0, 0, 34);
step_harness!(c01_t_step_i1x_w1, step_write, 8, 4, 4, 1, Pat::I1X, 0, 1, 34);
step_harness!(c01_t_step_i1x_r1, step_read, 8, 4, 4, 2, Pat::I1X, 0, 1, 34);
step_harness!(c01_t_step_i1x_w2, step_write, 8, 4, 4, 2, Pat::I1X, 0, 2, 34);
step_harness!(c01_t_step_i1x_r2, step_read, 8, 4, 4, 0, Pat::I1X, 0, 2, 34);
step_harness!(c01_t_step_ix1_w0, step_write, 8, 4, 4, 0, Pat::IX1, 0, 0, 34);
step_harness!(c01_t_step_ix1_r0, step_read, 8, 4, 4, 1, Pat::IX1, 0, 0, 34);
step_harness!(c01_t_step_ix1_w1, step_write, 8, 4, 4, 1, Pat::IX1, 0, 1, 34);
step_harness!(c01_t_step_ix1_r1, step_read, 8, 4, 4, 2, Pat::IX1, 0, 1, 34);
step_harness!(c01_t_step_ix1_w2, step_write, 8, 4, 4, 2, Pat::IX1, 0, 2, 34);
step_harness!(c01_t_step_ix1_r2, step_read, 8, 4, 4, 0, Pat::IX1, 0, 2, 34);
step_harness!(c01_t_step_i1x1_w0, step_write, 8, 4, 4, 0, Pat::I1X1, 0, 0, 34);
step_harness!(c01_t_step_i1x1_r0, step_read, 8, 4, 4, 1, Pat::I1X1, 0, 0, 34);
step_harness!(c01_t_step_i1x1_w1, step_write, 8, 4, 4, 1, Pat::I1X1, 0, 1, 34);
step_harness!(c01_t_step_i1x1_r1, step_read, 8, 4, 4, 2, Pat::I1X1, 0, 1, 34);
step_harness!(c01_t_step_i1x1_w2, step_write, 8, 4, 4, 2, Pat::I1X1, 0, 2, 34);
step_harness!(c01_t_step_i1x1_r2, step_read, 8, 4, 4, 0, Pat::I1X1, 0, 2, 34);
step_harness!(c01_t_step_nnpsk0_w0, step_write, 8, 4, 4, 1, Pat::NN, 1, 0, 34);
step_harness!(c01_t_step_nnpsk0_r0, step_read, 8, 4, 4, 2, Pat::NN, 1, 0, 34);
step_harness!(c01_t_step_nnpsk0_w1, step_write, 8, 4, 4, 1, Pat::NN, 1, 1, 34);
step_harness!(c01_t_step_nnpsk0_r1, step_read, 8, 4, 4, 2, Pat::NN, 1, 1, 34);
step_harness!(c01_t_step_nnpsk1_w0, step_write, 8, 4, 4, 1, Pat::NN, 2, 0, 34);
step_harness!(c01_t_step_nnpsk1_r0, step_read, 8, 4, 4, 2, Pat::NN, 2, 0, 34);
step_harness!(c01_t_step_nnpsk1_w1, step_write, 8, 4, 4, 1, Pat::NN, 2, 1, 34);
step_harness!(c01_t_step_nnpsk1_r1, step_read, 8, 4, 4, 2, Pat::NN, 2, 1, 34);
step_harness!(c01_t_step_nnpsk2_w0, step_write, 8, 4, 4, 1, Pat::NN, 4, 0, 34);
step_harness!(c01_t_step_nnpsk2_r0, step_read, 8, 4, 4, 2, Pat::NN, 4, 0, 34);
step_harness!(c01_t_step_nnpsk2_w1, step_write, 8, 4, 4, 1, Pat::NN, 4, 1, 34);
step_harness!(c01_t_step_nnpsk2_r1, step_read, 8, 4, 4, 2, Pat::NN, 4, 1, 34);
step_harness!(c01_t_step_xxpsk0_w0, step_write, 8, 4, 4, 1, Pat::XX, 1, 0, 34);
step_harness!(c01_t_step_xxpsk0_r0, step_read, 8, 4, 4, 2, Pat::XX, 1, 0, 34);
step_harness!(c01_t_step_xxpsk0_w1, step_write, 8, 4, 4, 1, Pat::XX, 1, 1, 34);
step_harness!(c01_t_step_xxpsk0_r1, step_read, 8, 4, 4, 2, Pat::XX, 1, 1, 34);
step_harness!(c01_t_step_xxpsk0_w2, step_write, 8, 4, 4, 1, Pat::XX, 1, 2, 34);
step_harness!(c01_t_step_xxpsk0_r2, step_read, 8, 4, 4, 2, Pat::XX, 1, 2, 34);
step_harness!(c01_t_step_xxpsk1_w0, step_write, 8, 4, 4, 1, Pat::XX, 2, 0, 34);
step_harness!(c01_t_step_xxpsk1_r0, step_read, 8, 4, 4, 2, Pat::XX, 2, 0, 34);
step_harness!(c01_t_step_xxpsk1_w1, step_write, 8, 4, 4, 1, Pat::XX, 2, 1, 34);
step_harness!(c01_t_step_xxpsk1_r1, step_read, 8, 4, 4, 2, Pat::XX, 2, 1, 34);
step_harness!(c01_t_step_xxpsk1_w2, step_write, 8, 4, 4, 1, Pat::XX, 2, 2, 34);
step_harness!(c01_t_step_xxpsk1_r2, step_read, 8, 4, 4, 2, Pat::XX, 2, 2, 34);
step_harness!(c01_t_step_xxpsk2_w0, step_write, 8, 4, 4, 1, Pat::XX, 4, 0, 34);
step_harness!(c01_t_step_xxpsk2_r0, step_read, 8, 4, 4, 2, Pat::XX, 4, 0, 34);
step_harness!(c01_t_step_xxpsk2_w1, step_write, 8, 4, 4, 1, Pat::XX, 4, 1, 34);
step_harness!(c01_t_step_xxpsk2_r1, step_read, 8, 4, 4, 2, Pat::XX, 4, 1, 34);
step_harness!(c01_t_step_xxpsk2_w2, step_write, 8, 4, 4, 1, Pat::XX, 4, 2, 34);
step_harness!(c01_t_step_xxpsk2_r2, step_read, 8, 4, 4, 2, Pat::XX, 4, 2, 34);
step_harness!(c01_t_step_xxpsk3_w0, step_write, 8, 4, 4, 1, Pat::XX, 8, 0, 34);
step_harness!(c01_t_step_xxpsk3_r0, step_read, 8, 4, 4, 2, Pat::XX, 8, 0, 34);
step_harness!(c01_t_step_xxpsk3_w1, step_write, 8, 4, 4, 1, Pat::XX, 8, 1, 34);
step_harness!(c01_t_step_xxpsk3_r1, step_read, 8, 4, 4, 2, Pat::XX, 8, 1, 34);
step_harness!(c01_t_step_xxpsk3_w2, step_write, 8, 4, 4, 1, Pat::XX, 8, 2, 34);
step_harness!(c01_t_step_xxpsk3_r2, step_read, 8, 4, 4, 2, Pat::XX, 8, 2, 34);
step_harness!(c01_t_step_ikpsk0_w0, step_write, 8, 4, 4, 1, Pat::IK, 1, 0, 34);
step_harness!(c01_t_step_ikpsk0_r0, step_read, 8, 4, 4, 2, Pat::IK, 1, 0, 34);
step_harness!(c01_t_step_ikpsk0_w1, step_write, 8, 4, 4, 1, Pat::IK, 1, 1, 34);
step_harness!(c01_t_step_ikpsk0_r1, step_read, 8, 4, 4, 2, Pat::IK, 1, 1, 34);
step_harness!(c01_t_step_ikpsk1_w0, step_write, 8, 4, 4, 1, Pat::IK, 2, 0, 34);
step_harness!(c01_t_step_ikpsk1_r0, step_read, 8, 4, 4, 2, Pat::IK, 2, 0, 34);
step_harness!(c01_t_step_ikpsk1_w1, step_write, 8, 4, 4, 1, Pat::IK, 2, 1, 34);
step_harness!(c01_t_step_ikpsk1_r1, step_read, 8, 4, 4, 2, Pat::IK, 2, 1, 34);
step_harness!(c01_t_step_ikpsk2_w0, step_write, 8, 4, 4, 1, Pat::IK, 4, 0, 34);
step_harness!(c01_t_step_ikpsk2_r0, step_read, 8, 4, 4, 2, Pat::IK, 4, 0, 34);
step_harness!(c01_t_step_ikpsk2_w1, step_write, 8, 4, 4, 1, Pat::IK, 4, 1, 34);
step_harness!(c01_t_step_ikpsk2_r1, step_read, 8, 4, 4, 2, Pat::IK, 4, 1, 34);
step_harness!(c01_t_step_x1x1psk0_w0, step_write, 8, 4, 4, 1, Pat::X1X1, 1, 0, 34);
step_harness!(c01_t_step_x1x1psk0_r0, step_read, 8, 4, 4, 2, Pat::X1X1, 1, 0, 34);
step_harness!(c01_t_step_x1x1psk0_w1, step_write, 8, 4, 4, 1, Pat::X1X1, 1, 1, 34);
step_harness!(c01_t_step_x1x1psk0_r1, step_read, 8, 4, 4, 2, Pat::X1X1, 1, 1, 34);
step_harness!(c01_t_step_x1x1psk0_w2, step_write, 8, 4, 4, 1, Pat::X1X1, 1, 2, 34);
step_harness!(c01_t_step_x1x1psk0_r2, step_read, 8, 4, 4, 2, Pat::X1X1, 1, 2, 34);
step_harness!(c01_t_step_x1x1psk0_w3, step_write, 8, 4, 4, 1, Pat::X1X1, 1, 3, 34);
step_harness!(c01_t_step_x1x1psk0_r3, step_read, 8, 4, 4, 2, Pat::X1X1, 1, 3, 34);
step_harness!(c01_t_step_x1x1psk1_w0, step_write, 8, 4, 4, 1, Pat::X1X1, 2, 0, 34);
step_harness!(c01_t_step_x1x1psk1_r0, step_read, 8, 4, 4, 2, Pat::X1X1, 2, 0, 34);
step_harness!(c01_t_step_x1x1psk1_w1, step_write, 8, 4, 4, 1, Pat::X1X1, 2, 1, 34);
step_harness!(c01_t_step_x1x1psk1_r1, step_read, 8, 4, 4, 2, Pat::X1X1, 2, 1, 34);
step_harness!(c01_t_step_x1x1psk1_w2, step_write, 8, 4, 4, 1, Pat::X1X1, 2, 2, 34);
step_harness!(c01_t_step_x1x1psk1_r2, step_read, 8, 4, 4, 2, Pat::X1X1, 2, 2, 34);
step_harness!(c01_t_step_x1x1psk1_w3, step_write, 8, 4, 4, 1, Pat::X1X1, 2, 3, 34);
step_harness!(c01_t_step_x1x1psk1_r3, step_read, 8, 4, 4, 2, Pat::X1X1, 2, 3, 34);
step_harness!(c01_t_step_x1x1psk2_w0, step_write, 8, 4, 4, 1, Pat::X1X1, 4, 0, 34);
step_harness!(c01_t_step_x1x1psk2_r0, step_read, 8, 4, 4, 2, Pat::X1X1, 4, 0, 34);
step_harness!(c01_t_step_x1x1psk2_w1, step_write, 8, 4, 4, 1, Pat::X1X1, 4, 1, 34);
step_harness!(c01_t_step_x1x1psk2_r1, step_read, 8, 4, 4, 2, Pat::X1X1, 4, 1, 34);
step_harness!(c01_t_step_x1x1psk2_w2, step_write, 8, 4, 4, 1, Pat::X1X1, 4, 2, 34);
step_harness!(c01_t_step_x1x1psk2_r2, step_read, 8, 4, 4, 2, Pat::X1X1, 4, 2, 34);
step_harness!(c01_t_step_x1x1psk2_w3, step_write, 8, 4, 4, 1, Pat::X1X1, 4, 3, 34);
step_harness!(c01_t_step_x1x1psk2_r3, step_read, 8, 4, 4, 2, Pat::X1X1, 4, 3, 34);
step_harness!(c01_t_step_x1x1psk3_w0, step_write, 8, 4, 4, 1, Pat::X1X1, 8, 0, 34);
step_harness!(c01_t_step_x1x1psk3_r0, step_read, 8, 4, 4, 2, Pat::X1X1, 8, 0, 34);
step_harness!(c01_t_step_x1x1psk3_w1, step_write, 8, 4, 4, 1, Pat::X1X1, 8, 1, 34);
step_harness!(c01_t_step_x1x1psk3_r1, step_read, 8, 4, 4, 2, Pat::X1X1, 8, 1, 34);
step_harness!(c01_t_step_x1x1psk3_w2, step_write, 8, 4, 4, 1, Pat::X1X1, 8, 2, 34);
step_harness!(c01_t_step_x1x1psk3_r2, step_read, 8, 4, 4, 2, Pat::X1X1, 8, 2, 34);
step_harness!(c01_t_step_x1x1psk3_w3, step_write, 8, 4, 4, 1, Pat::X1X1, 8, 3, 34);
step_harness!(c01_t_step_x1x1psk3_r3, step_read, 8, 4, 4, 2, Pat::X1X1, 8, 3, 34);
step_harness!(c01_t_step_x1x1psk4_w0, step_write, 8, 4, 4, 1, Pat::X1X1, 16, 0, 34);
step_harness!(c01_t_step_x1x1psk4_r0, step_read, 8, 4, 4, 2, Pat::X1X1, 16, 0, 34);
step_harness!(c01_t_step_x1x1psk4_w1, step_write, 8, 4, 4, 1, Pat::X1X1, 16, 1, 34);
step_harness!(c01_t_step_x1x1psk4_r1, step_read, 8, 4, 4, 2, Pat::X1X1, 16, 1, 34);
step_harness!(c01_t_step_x1x1psk4_w2, step_write, 8, 4, 4, 1, Pat::X1X1, 16, 2, 34);
step_harness!(c01_t_step_x1x1psk4_r2, step_read, 8, 4, 4, 2, Pat::X1X1, 16, 2, 34);
step_harness!(c01_t_step_x1x1psk4_w3, step_write, 8, 4, 4, 1, Pat::X1X1, 16, 3, 34);
step_harness!(c01_t_step_x1x1psk4_r3, step_read, 8, 4, 4, 2, Pat::X1X1, 16, 3, 34);
step_harness!(c01_t_step_xxpsk0psk3_w2, step_write, 8, 4, 4, 1, Pat::XX, 9, 2, 34);
step_harness!(c01_t_step_nnpsk0psk1psk2_r1, step_read, 8, 4, 4, 1, Pat::NN, 7, 1, 34);
step_harness!(c01_t_step_xx_w1_hl32, step_write, 32, 4, 4, 1, Pat::XX, 0, 1, 34);
step_harness!(c01_t_step_xx_r2_hl64_p256shape, step_read, 64, 5, 3, 1, Pat::XX, 0, 2, 66);

// ------------------------------------------------------------------------------------ builder-level init

/// The real `Builder` (keys, prologue longer than a hash block, PSK) over the toy resolver: the handshake state it
/// produces must be the specification's Initialize for exactly the configured name / prologue / keys.
#[kani::proof]
#[kani::unwind(140)]
pub fn c01_q_init_via_builder_long_prologue() {
    const PRO: usize = 131;
    let mut pro = [0x5Au8; PRO];
    pro[0] = kani::any();
    pro[63] = kani::any();
    pro[64] = kani::any();
    pro[127] = kani::any();
    pro[128] = kani::any();
    pro[130] = kani::any();
    let si: [u8; 4] = kani::any();
    let rs_pub: [u8; 4] = kani::any();
    let initiator: bool = kani::any();
    let pat = Pat::KK;
    let rm = HsOps::<Toy<8, 4, 4>>::initialize(pat, 0, initiator, NAME.as_bytes(), &pro, Some(&si), Some(&rs_pub), [[0u8; 32]; 10], 0);
    let b = snow::Builder::with_resolver(mk_params(NAME, pat, 0), Box::new(ToyResolver))
        .local_private_key(&si)
        .unwrap()
        .remote_public_key(&rs_pub)
        .unwrap()
        .prologue(&pro)
        .unwrap();
    let r = if initiator { b.build_initiator() } else { b.build_responder() };
    kani::cover!(r.is_ok(), "C01 builder init reachable");
    assert!(r.is_ok(), "C01: Builder refused a complete configuration");
    if let Ok(hs) = r {
        let snap = verif::snapshot(&hs);
        assert!(diff_state::<Toy<8, 4, 4>>(&snap, EP_A, &rm) == 0, "C01: the state built by Builder differs from the specification's Initialize (name, prologue or keys not passed on unaltered)");
        let hh = hs.get_handshake_hash();
        assert_prefix_eq!(hh, rm.sym.h, 8, 8, "C01: handshake hash after Builder::build differs from the specification");
        core::mem::forget(hs);
    }
}

// ------------------------------------------------------------------------------------------ token table

fn tok_code(t: Tok) -> u8 {
    match t {
        Tok::E => 0,
        Tok::S => 1,
        Tok::EE => 2,
        Tok::ES => 3,
        Tok::SE => 4,
        Tok::SS => 5,
    }
}

/// snow's whole pattern table (pre-messages and message tokens of all 38 patterns, without modifier and with each
/// single psk0..psk5) against the reference model's transcription of the specification. The space is finite
/// (38 x 7) and is enumerated completely inside the queries (6 patterns per harness); a symbolic pattern index
/// makes `HandshakeTokens::try_from` build 38 heap tables at once and does not finish.
pub fn token_table_one(i: usize, with_psk: bool) {
    use snow::params::*;
    {
        {
            let pat = ALL_PATS[i];
            let d = pat.def();
            let n = d.msgs.len();
            // without modifier (quick); with psk0, psk(n) and the first invalid psk(n+1) (thorough)
            let mut pi_ = if with_psk { 0 } else { 3 };
            while pi_ < 4 {
                let psk: u8 = match pi_ {
                    0 => 0,
                    1 => n as u8,
                    2 => n as u8 + 1,
                    _ => 255,
                };
                let mods = if psk == 255 { Vec::new() } else { vec![HandshakeModifier::Psk(psk)] };
                let hc = HandshakeChoice { pattern: SUPPORTED_HANDSHAKE_PATTERNS[i], modifiers: HandshakeModifierList { list: mods } };
                let t = verif::token_table(&hc);
                let valid = psk == 255 || (psk as usize) <= n;
                assert!(t.is_some() == valid, "C12: a psk modifier is accepted iff its index is at most the number of messages");
                if let Some((pi, pr, msgs)) = t {
                    assert!(pi.len() == (d.pre_i as usize) && pr.len() == (d.pre_r as usize), "C01: pre-message pattern differs from the specification");
                    assert!(pi.iter().all(|x| *x == 1) && pr.iter().all(|x| *x == 1), "C01: pre-message token is not s");
                    assert!(msgs.len() == n, "C01: number of messages differs from the specification");
                    let mut m = 0;
                    while m < 4 {
                        if m < n {
                            let base = d.msgs[m];
                            let front = psk == 0 && m == 0;
                            let back = psk != 255 && psk != 0 && (psk as usize) == m + 1;
                            let want_len = base.len() + (front as usize) + (back as usize);
                            assert!(msgs[m].len() == want_len, "C01: number of tokens in a message differs from the specification");
                            let mut k = 0;
                            while k < 7 {
                                if k < want_len && k < msgs[m].len() {
                                    let want = if front && k == 0 {
                                        16
                                    } else if back && k == want_len - 1 {
                                        16 + psk
                                    } else {
                                        tok_code(base[k - (front as usize)])
                                    };
                                    assert!(msgs[m][k] == want, "C01: message token differs from the specification's pattern");
                                }
                                k += 1;
                            }
                        }
                        m += 1;
                    }
                    core::mem::forget(msgs);
                }
                pi_ += 1;
            }
        }
    }
    kani::cover!(true, "C01 token table reached");
}

macro_rules! table_harness {
    ($name:ident, $i:expr, $psk:expr) => {
        #[kani::proof]
        #[kani::unwind(12)]
        pub fn $name() {
            token_table_one($i, $psk);
        }
    };
}
table_harness!(c01_q_tokens_n, 0, false);
table_harness!(c01_t_tokens_n_psk, 0, true);
table_harness!(c01_q_tokens_x, 1, false);
table_harness!(c01_t_tokens_x_psk, 1, true);
table_harness!(c01_q_tokens_k, 2, false);
table_harness!(c01_t_tokens_k_psk, 2, true);
table_harness!(c01_q_tokens_nn, 3, false);
table_harness!(c01_t_tokens_nn_psk, 3, true);
table_harness!(c01_q_tokens_nk, 4, false);
table_harness!(c01_t_tokens_nk_psk, 4, true);
table_harness!(c01_q_tokens_nx, 5, false);
table_harness!(c01_t_tokens_nx_psk, 5, true);
table_harness!(c01_q_tokens_xn, 6, false);
table_harness!(c01_t_tokens_xn_psk, 6, true);
table_harness!(c01_q_tokens_xk, 7, false);
table_harness!(c01_t_tokens_xk_psk, 7, true);
table_harness!(c01_q_tokens_xx, 8, false);
table_harness!(c01_t_tokens_xx_psk, 8, true);
table_harness!(c01_q_tokens_kn, 9, false);
table_harness!(c01_t_tokens_kn_psk, 9, true);
table_harness!(c01_q_tokens_kk, 10, false);
table_harness!(c01_t_tokens_kk_psk, 10, true);
table_harness!(c01_q_tokens_kx, 11, false);
table_harness!(c01_t_tokens_kx_psk, 11, true);
table_harness!(c01_q_tokens_in, 12, false);
table_harness!(c01_t_tokens_in_psk, 12, true);
table_harness!(c01_q_tokens_ik, 13, false);
table_harness!(c01_t_tokens_ik_psk, 13, true);
table_harness!(c01_q_tokens_ix, 14, false);
table_harness!(c01_t_tokens_ix_psk, 14, true);
table_harness!(c01_q_tokens_nk1, 15, false);
table_harness!(c01_t_tokens_nk1_psk, 15, true);
table_harness!(c01_q_tokens_nx1, 16, false);
table_harness!(c01_t_tokens_nx1_psk, 16, true);
table_harness!(c01_q_tokens_x1n, 17, false);
table_harness!(c01_t_tokens_x1n_psk, 17, true);
table_harness!(c01_q_tokens_x1k, 18, false);
table_harness!(c01_t_tokens_x1k_psk, 18, true);
table_harness!(c01_q_tokens_xk1, 19, false);
table_harness!(c01_t_tokens_xk1_psk, 19, true);
table_harness!(c01_q_tokens_x1k1, 20, false);
table_harness!(c01_t_tokens_x1k1_psk, 20, true);
table_harness!(c01_q_tokens_x1x, 21, false);
table_harness!(c01_t_tokens_x1x_psk, 21, true);
table_harness!(c01_q_tokens_xx1, 22, false);
table_harness!(c01_t_tokens_xx1_psk, 22, true);
table_harness!(c01_q_tokens_x1x1, 23, false);
table_harness!(c01_t_tokens_x1x1_psk, 23, true);
table_harness!(c01_q_tokens_k1n, 24, false);
table_harness!(c01_t_tokens_k1n_psk, 24, true);
table_harness!(c01_q_tokens_k1k, 25, false);
table_harness!(c01_t_tokens_k1k_psk, 25, true);
table_harness!(c01_q_tokens_kk1, 26, false);
table_harness!(c01_t_tokens_kk1_psk, 26, true);
table_harness!(c01_q_tokens_k1k1, 27, false);
table_harness!(c01_t_tokens_k1k1_psk, 27, true);
table_harness!(c01_q_tokens_k1x, 28, false);
table_harness!(c01_t_tokens_k1x_psk, 28, true);
table_harness!(c01_q_tokens_kx1, 29, false);
table_harness!(c01_t_tokens_kx1_psk, 29, true);
table_harness!(c01_q_tokens_k1x1, 30, false);
table_harness!(c01_t_tokens_k1x1_psk, 30, true);
table_harness!(c01_q_tokens_i1n, 31, false);
table_harness!(c01_t_tokens_i1n_psk, 31, true);
table_harness!(c01_q_tokens_i1k, 32, false);
table_harness!(c01_t_tokens_i1k_psk, 32, true);
table_harness!(c01_q_tokens_ik1, 33, false);
table_harness!(c01_t_tokens_ik1_psk, 33, true);
table_harness!(c01_q_tokens_i1k1, 34, false);
table_harness!(c01_t_tokens_i1k1_psk, 34, true);
table_harness!(c01_q_tokens_i1x, 35, false);
table_harness!(c01_t_tokens_i1x_psk, 35, true);
table_harness!(c01_q_tokens_ix1, 36, false);
table_harness!(c01_t_tokens_ix1_psk, 36, true);
table_harness!(c01_q_tokens_i1x1, 37, false);
table_harness!(c01_t_tokens_i1x1_psk, 37, true);

// cleartext static key as the LAST field of a message with an empty payload (first message of the I-patterns)
step_harness!(c01_q_step_ix_r0_empty_payload, step_read, 8, 4, 4, 0, Pat::IX, 0, 0, 34);
step_harness!(c01_q_step_in_w0_empty_payload, step_write, 8, 4, 4, 0, Pat::IN, 0, 0, 34);
