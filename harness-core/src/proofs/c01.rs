//! C01 — wire conformance: real snow step vs reference-model step, from reference-model-reachable states.
#![allow(static_mut_refs)]
use super::common::*;
use crate::assert_prefix_eq;
use crate::glue::*;
use crate::prims::Toy;
use crate::rm::*;
use crate::stubs::*;
use snow::verif;

/// What (if anything) happens before the step under test: used by C07 (a failed call must be a no-op).
#[derive(Clone, Copy, PartialEq)]
pub enum Pre {
    None,
    /// failing write into a buffer of this many bytes (smaller than the message)
    SmallBuf(usize),
    /// call of the wrong kind for the current turn (read when it is time to write, and vice versa)
    OutOfTurn,
    /// genuine message, payload buffer one byte too small (reader only)
    SmallPayloadBuf,
}

fn indicators(hs: &snow::HandshakeState) -> (bool, bool, bool) {
    (hs.is_my_turn(), hs.is_handshake_finished(), hs.is_initiator())
}

/// Message k (0-based) of (pat, psk_mask): the party whose turn it is runs the real `write_message` with a
/// PLEN-byte symbolic payload; everything is compared with the reference model's WriteMessage.
pub fn step_write<const HL: usize, const PL: usize, const DL: usize, const PLEN: usize>(pat: Pat, psk_mask: u16, k: usize) {
    step_write_pre::<HL, PL, DL, PLEN>(pat, psk_mask, k, Pre::None)
}

pub fn step_write_pre<const HL: usize, const PL: usize, const DL: usize, const PLEN: usize>(pat: Pat, psk_mask: u16, k: usize, pre: Pre) {
    let pro: [u8; 2] = kani::any();
    let mut pair = rm_pair::<Toy<HL, PL, DL>>(pat, psk_mask, NAME.as_bytes(), &pro);
    rm_advance::<Toy<HL, PL, DL>>(&mut pair, k);
    let mut rmw = if k % 2 == 0 { pair.i } else { pair.r };

    let mut hs = snow_from_rm_a::<HL, PL, DL>(&rmw, NAME, false);
    let e: [u8; 8] = kani::any();
    set_rng_slot(0, &e);
    let payload: [u8; PLEN] = kani::any();
    let mut buf_s = [0u8; MSGBUF];
    let mut buf_r = [0u8; MSGBUF];
    if pre != Pre::None {
        let ind0 = indicators(&hs);
        let hh0 = hs.get_handshake_hash().to_vec();
        let other: [u8; PLEN] = kani::any();
        let r = match pre {
            Pre::SmallBuf(cap) => hs.write_message(&other, &mut buf_s[..cap]),
            _ => {
                let junk: [u8; 6] = kani::any();
                let mut o = [0u8; 8];
                hs.read_message(&junk, &mut o)
            },
        };
        assert!(r.is_err(), "C07 harness: the preliminary call was expected to fail");
        if pre == Pre::OutOfTurn {
            assert!(r == Err(snow::Error::State(snow::error::StateProblem::NotTurnToRead)), "C11: out-of-turn read must report NotTurnToRead");
        }
        assert!(indicators(&hs) == ind0, "C07: a failed call changed turn / finished indicators");
        assert!(hs.get_handshake_hash() == &hh0[..], "C07: a failed call changed the handshake hash");
        // the failed attempt drew an ephemeral from slot 0 (if the message has one); the retry draws from the next slot
        if rng_draws() == 1 {
            set_rng_slot(1, &e);
        }
        unsafe {
            RNG_DRAWS_BASE = RNG_DRAWS;
            RNG_BYTES_BASE = RNG_BYTES;
        }
    }
    let rs = hs.write_message(&payload, &mut buf_s);
    let mut ok = true;
    let nr = HsOps::<Toy<HL, PL, DL>>::write(&mut rmw, &e[..PL], &payload, &mut buf_r, &mut ok);
    kani::cover!(ok, "C01 step_write reached");
    assert!(rs.is_ok(), "C01: write_message failed where the specification succeeds");
    let ns = match rs {
        Ok(n) => n,
        Err(_) => 0,
    };
    assert!(ns == nr, "C01: handshake message length differs from specification");
    assert_prefix_eq!(buf_s, buf_r, nr, MSGBUF, "C01: handshake message bytes differ from specification");
    let snap = verif::snapshot(&hs);
    let d = diff_state::<Toy<HL, PL, DL>>(&snap, EP_A, &rmw);
    assert!(d == 0, "C01: post-write state differs from specification");
    let hh = hs.get_handshake_hash();
    assert!(hh.len() == HL, "C01: handshake hash length");
    assert_prefix_eq!(hh, rmw.sym.h, HL, HL, "C01: handshake hash differs from specification");
    assert!(hs.was_write_payload_encrypted() == rmw.sym.has_k, "C01: payload-encrypted indication");
    assert!(hs.is_handshake_finished() == (rmw.pos == pat.nmsgs()), "C01: finished indication");
    let want_draw = if has_e_token(pat, k) { 1 } else { 0 };
    assert!(rng_draws_since() == want_draw && rng_bytes_since() == want_draw * PL, "C01: ephemeral not drawn from the RNG during the write");
    if rmw.pos == pat.nmsgs() {
        let k1 = cipher_key(EP_A.c1);
        let k2 = cipher_key(EP_A.c2);
        assert_prefix_eq!(k1, rmw.k1, 32, 32, "C01: Split() key 1 differs from specification");
        assert_prefix_eq!(k2, rmw.k2, 32, 32, "C01: Split() key 2 differs from specification");
        assert!(verif::split_nonces(&hs) == (0, 0), "C01: transport nonces do not start at 0");
    }
}

/// Message k: the peer (reference model) writes it, the real `read_message` reads it.
pub fn step_read<const HL: usize, const PL: usize, const DL: usize, const PLEN: usize>(pat: Pat, psk_mask: u16, k: usize) {
    step_read_pre::<HL, PL, DL, PLEN>(pat, psk_mask, k, Pre::None)
}

pub fn step_read_pre<const HL: usize, const PL: usize, const DL: usize, const PLEN: usize>(pat: Pat, psk_mask: u16, k: usize, pre: Pre) {
    let pro: [u8; 2] = kani::any();
    let mut pair = rm_pair::<Toy<HL, PL, DL>>(pat, psk_mask, NAME.as_bytes(), &pro);
    rm_advance::<Toy<HL, PL, DL>>(&mut pair, k);
    let (mut rmw, mut rmr) = if k % 2 == 0 { (pair.i, pair.r) } else { (pair.r, pair.i) };

    let mut hs = snow_from_rm_a::<HL, PL, DL>(&rmr, NAME, false);
    let e: [u8; 8] = kani::any();
    let payload: [u8; PLEN] = kani::any();
    let mut msg = [0u8; MSGBUF];
    let mut ok = true;
    let n = HsOps::<Toy<HL, PL, DL>>::write(&mut rmw, &e[..PL], &payload, &mut msg, &mut ok);
    let mut out_s = [0u8; 8];
    let mut out_r = [0u8; 8];
    if pre != Pre::None {
        let ind0 = indicators(&hs);
        let hh0 = hs.get_handshake_hash().to_vec();
        let r = match pre {
            Pre::SmallPayloadBuf => hs.read_message(&msg[..n], &mut out_s[..PLEN - 1]),
            _ => {
                let junk: [u8; 2] = kani::any();
                let mut b = [0u8; MSGBUF];
                hs.write_message(&junk, &mut b)
            },
        };
        assert!(r.is_err(), "C07 harness: the preliminary call was expected to fail");
        if pre == Pre::OutOfTurn {
            assert!(r == Err(snow::Error::State(snow::error::StateProblem::NotTurnToWrite)), "C11: out-of-turn write must report NotTurnToWrite");
        }
        assert!(indicators(&hs) == ind0, "C07: a failed call changed turn / finished indicators");
        assert!(hs.get_handshake_hash() == &hh0[..], "C07: a failed call changed the handshake hash");
    }
    let rs = hs.read_message(&msg[..n], &mut out_s);
    let nr = HsOps::<Toy<HL, PL, DL>>::read(&mut rmr, &msg[..n], &mut out_r, &mut ok);
    kani::cover!(ok, "C01 step_read reached");
    assert!(ok && nr == PLEN, "RM self-consistency");
    assert!(rs.is_ok(), "C01: read_message rejects the specification's message");
    let ns = match rs {
        Ok(n) => n,
        Err(_) => 0,
    };
    assert!(ns == PLEN, "C01: payload length returned by read_message");
    assert_prefix_eq!(out_s, payload, PLEN, PLEN, "C01: payload bytes returned by read_message");
    let snap = verif::snapshot(&hs);
    let d = diff_state::<Toy<HL, PL, DL>>(&snap, EP_A, &rmr);
    assert!(d == 0, "C01: post-read state differs from specification");
    let hh = hs.get_handshake_hash();
    assert_prefix_eq!(hh, rmr.sym.h, HL, HL, "C01: handshake hash differs from specification");
    assert!(hs.is_handshake_finished() == (rmr.pos == pat.nmsgs()), "C01: finished indication");
    assert!(rng_draws() == 0, "C01: randomness drawn by a read");
    if rmr.pos == pat.nmsgs() {
        let k1 = cipher_key(EP_A.c1);
        let k2 = cipher_key(EP_A.c2);
        assert_prefix_eq!(k1, rmr.k1, 32, 32, "C01: Split() key 1 differs from specification");
        assert_prefix_eq!(k2, rmr.k2, 32, 32, "C01: Split() key 2 differs from specification");
    }
}

macro_rules! step_harness {
    ($name:ident, $f:ident, $hl:expr, $pl:expr, $dl:expr, $plen:expr, $pat:expr, $mask:expr, $k:expr, $unw:expr) => {
        #[kani::proof]
        #[kani::unwind($unw)]
        pub fn $name() {
            $f::<$hl, $pl, $dl, $plen>($pat, $mask, $k);
        }
    };
}

step_harness!(c01_q_step_nn_w0, step_write, 8, 4, 4, 2, Pat::NN, 0, 0, 34);
step_harness!(c01_q_step_nn_r0, step_read, 8, 4, 4, 1, Pat::NN, 0, 0, 34);
step_harness!(c01_q_step_nn_w1, step_write, 8, 4, 4, 0, Pat::NN, 0, 1, 34);
step_harness!(c01_q_step_xx_w1, step_write, 8, 4, 4, 2, Pat::XX, 0, 1, 34);
step_harness!(c01_q_step_xx_r2, step_read, 8, 4, 4, 1, Pat::XX, 0, 2, 34);
