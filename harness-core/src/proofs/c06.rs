//! C06 — no AEAD (key, nonce) pair is ever used to encrypt two different inputs, across failing calls and
//! retries. One handshake write at message k, preceded by failing attempts (oversize payload with a large buffer,
//! undersized buffer), every `Cipher::encrypt` call recorded by a ghost-logging cipher: (key bytes, nonce, AD,
//! plaintext length and prefix). All cryptographic inputs are concrete, so equal key bytes mean equal derivations.
//! (That ephemerals are drawn from the resolver's RNG during the write is asserted by every C01 write step;
//!  that transport nonces step by exactly one, so that (key, nonce) pairs never repeat there, is C09.)
#![allow(static_mut_refs)]
use super::common::*;
use crate::glue::*;
use crate::prims::Toy;
use crate::rm::*;
use crate::stubs::*;
use snow::Error;

type P = Toy<8, 4, 4>;
const BIG: usize = 66000;
static ZEROS: [u8; BIG] = [0u8; BIG];

pub fn write_with_failed_attempts(pat: Pat, psk_mask: u16, k: usize, oversize: bool, smallcap: usize) {
    unsafe {
        CONCRETE_INPUTS = true;
    }
    let pro = [1u8, 2u8];
    let mut pair = rm_pair::<P>(pat, psk_mask, NAME.as_bytes(), &pro);
    rm_advance::<P>(&mut pair, k);
    let rmw = if k % 2 == 0 { pair.i } else { pair.r };
    // ephemerals come from the stub RNG (not fixed): every attempt that reaches the "e" token must draw a fresh one
    let mut hs = snow_from_rm_ghost::<4, 4>(&rmw, NAME, false);
    let has_e = has_e_token(pat, k);
    set_rng_slot(0, &[0x11, 0x12, 0x13, 0x14, 0, 0, 0, 0]);
    set_rng_slot(1, &[0x21, 0x22, 0x23, 0x24, 0, 0, 0, 0]);
    set_rng_slot(2, &[0x31, 0x32, 0x33, 0x34, 0, 0, 0, 0]);
    let mut buf = [0u8; BIG];
    if oversize {
        // larger than any handshake message may be, with a buffer that would hold it
        let r = hs.write_message(&ZEROS[..65535], &mut buf);
        assert!(r == Err(Error::Input), "C14: a handshake message longer than 65535 bytes was not refused with the input error");
    }
    if smallcap > 0 {
        let other = [9u8, 9u8];
        let r = hs.write_message(&other, &mut buf[..smallcap]);
        assert!(r == Err(Error::Input), "C14: a write into a buffer smaller than the message was not refused with the input error");
    }
    let payload: [u8; 3] = kani::any();
    let draws_before = rng_draws();
    let r = hs.write_message(&payload, &mut buf);
    if has_e {
        assert!(rng_draws() == draws_before + 1, "C06: the ephemeral of a handshake message was not drawn from the resolver's random source during that write");
        // the key on the wire is the one derived from the bytes drawn by THIS call
        let slot = draws_before % 4;
        let mut want = [0u8; 8];
        let drawn: [u8; 4] = [0x11 + 0x10 * slot as u8, 0x12 + 0x10 * slot as u8, 0x13 + 0x10 * slot as u8, 0x14 + 0x10 * slot as u8];
        crate::toy::dh_pub(4, &drawn, &mut want);
        let off = if k == 0 && (psk_mask & 1) != 0 { 0 } else { 0 };
        assert!(buf[off] == want[0] && buf[off + 1] == want[1] && buf[off + 2] == want[2] && buf[off + 3] == want[3], "C06: the ephemeral public key in the message is not derived from the bytes drawn during this write");
    } else {
        assert!(rng_draws() == draws_before, "C06: randomness drawn by a message without an ephemeral");
    }
    kani::cover!(r.is_ok(), "C06 valid write reachable");
    assert!(r.is_ok(), "C06/C07: the valid write after failed attempts must succeed");
    assert!(!ghost_log_has_reuse(), "C06: two different inputs were encrypted under the same key and nonce");
}

macro_rules! reuse_harness {
    ($name:ident, $pat:expr, $mask:expr, $k:expr, $over:expr, $cap:expr) => {
        #[kani::proof]
        #[kani::unwind(66)]
        pub fn $name() {
            write_with_failed_attempts($pat, $mask, $k, $over, $cap);
        }
    };
}
// K1K1 message 3 = "se" + payload: the key is derived inside the message (deterministic on retry)
reuse_harness!(c06_q_k1k1_w2_oversize, Pat::K1K1, 0, 2, true, 0);
// XX message 3 = "s, se": s encrypted under the previous key, payload under a fresh one
reuse_harness!(c06_q_xx_w2_oversize_and_smallbuf, Pat::XX, 0, 2, true, 21);
// X1N message 3 = "s": s and payload under the same key, consecutive nonces
reuse_harness!(c06_q_x1n_w2_smallbuf, Pat::X1N, 0, 2, false, 21);
reuse_harness!(c06_q_nnpsk0_w0_oversize, Pat::NN, 1, 0, true, 0);
// failing attempts AFTER the e token of a message that carries one, then the retry
reuse_harness!(c06_q_xx_w1_smallbuf_after_e, Pat::XX, 0, 1, false, 30);
reuse_harness!(c06_q_nn_w0_oversize_after_e, Pat::NN, 0, 0, true, 0);
reuse_harness!(c06_t_ik_w0_oversize_and_smallbuf, Pat::IK, 0, 0, true, 30);
reuse_harness!(c06_t_xx_w1_oversize, Pat::XX, 0, 1, true, 0);
reuse_harness!(c06_t_kk_w1_oversize, Pat::KK, 0, 1, true, 0);

/// Transport mode: two successful writes of a stateful session with ONE arbitrary other API call in between (setting
/// the receiving nonce to any value, a read of anything, a failing write, nothing) never hand the cipher the same nonce
/// twice - no rekey happens in between, so the key is the same and equal nonces would be (key, nonce) reuse. Role, one-way
/// class and both starting nonces are symbolic (one step from an arbitrary transport state).
#[kani::proof]
#[kani::unwind(20)]
pub fn c06_q_transport_writes_never_share_a_nonce() {
    use snow::params::HandshakePattern;
    use snow::verif::MAXDHLEN;
    use snow::TransportState;
    let initiator: bool = kani::any();
    let oneway: bool = kani::any();
    let n_i: u64 = kani::any();
    let n_r: u64 = kani::any();
    let pattern = if oneway { HandshakePattern::N } else { HandshakePattern::NN };
    let mut ts = TransportState::verif_from_parts(Box::new(OCipher::<1>), n_i, Box::new(OCipher::<2>), n_r, pattern, 4, [0u8; MAXDHLEN], false, initiator);
    let p1: [u8; 2] = kani::any();
    let p2: [u8; 2] = kani::any();
    let mut b1 = [0u8; 18];
    let mut b2 = [0u8; 18];
    let r1 = ts.write_message(&p1, &mut b1);
    let op: u8 = kani::any();
    kani::assume(op < 4);
    match op {
        0 => ts.set_receiving_nonce(kani::any()),
        1 => {
            let m: [u8; 20] = kani::any();
            let l: usize = kani::any();
            kani::assume(l <= 20);
            let mut out = [0u8; 8];
            let _ = ts.read_message(&m[..l], &mut out);
        },
        2 => {
            let mut tiny = [0u8; 3];
            let _ = ts.write_message(&p1, &mut tiny);
        },
        _ => {},
    }
    let r2 = ts.write_message(&p2, &mut b2);
    let obj = if initiator { 1 } else { 2 };
    kani::cover!(r1.is_ok() && r2.is_ok() && op == 0, "C06 transport harness: two successful writes reachable");
    if r1.is_ok() && r2.is_ok() {
        unsafe {
            assert!(O_ENC_CALLS[obj] == 2, "C06: two successful transport writes did not produce exactly two encryptions on the sending cipher");
            assert!(O_ENC_NONCES[obj][0] != O_ENC_NONCES[obj][1], "C06: two transport writes of a session encrypted under the same key and the same nonce");
        }
    }
}
