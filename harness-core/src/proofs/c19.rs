//! C19 (snow's own layers) — when a read fails authentication the caller's payload buffer is left exactly as it
//! was: `decrypt_ad`, `decrypt_and_mix_hash` and the three `read_message`s never write to it after an Err and
//! never copy from a scratch plaintext. The cipher is an oracle that (like every built-in backend's verify-
//! then-decrypt) leaves `out` unchanged when it rejects. What the real backends' `decrypt` does to `out` on
//! rejection is checked on the real RustCrypto AEADs in harness-real (C19 part a); `ring` is FFI: not encodable.
#![allow(static_mut_refs)]
use super::common::*;
use crate::glue::*;
use crate::prims::Toy;
use crate::rm::*;
use crate::stubs::*;
use snow::params::HandshakePattern;
use snow::verif::MAXDHLEN;
use snow::{StatelessTransportState, TransportState};

type P = Toy<8, 4, 4>;

/// handshake read, rejection at decrypt call number `fail_at`; payload buffer exact / larger (symbolic size)
pub fn handshake_reject(pat: Pat, psk_mask: u16, k: usize, fail_at: u32) {
    unsafe {
        CONCRETE_INPUTS = true;
    }
    let pro = [0u8; 2];
    let mut pair = rm_pair::<P>(pat, psk_mask, NAME.as_bytes(), &pro);
    rm_advance::<P>(&mut pair, k);
    let rmr = if k % 2 == 0 { pair.r } else { pair.i };
    let mut hs = snow_from_rm_oracle::<4, 4>(&rmr, NAME, false);
    let (fixed, _) = HsOps::<P>::overhead(pat, psk_mask, k);
    let msg: [u8; MSGBUF] = kani::any();
    let plen: usize = kani::any();
    kani::assume(plen <= 4);
    let cap: usize = kani::any();
    kani::assume(cap >= plen && cap <= 8);
    let mut out: [u8; 8] = kani::any();
    let before = out;
    unsafe {
        O_DEC_FAIL_AT[0] = fail_at;
    }
    let r = hs.read_message(&msg[..fixed + plen], &mut out[..cap]);
    kani::cover!(r == Err(snow::Error::Decrypt), "C19 handshake rejection reachable");
    assert!(r == Err(snow::Error::Decrypt), "C03: a message that the cipher rejects was accepted");
    assert!(out == before, "C19: the caller's payload buffer was modified by a handshake read that failed authentication");
}

macro_rules! hs_reject {
    ($name:ident, $pat:expr, $mask:expr, $k:expr, $at:expr) => {
        #[kani::proof]
        #[kani::unwind(34)]
        pub fn $name() {
            handshake_reject($pat, $mask, $k, $at);
        }
    };
}
hs_reject!(c19_q_hs_nn_r1_payload, Pat::NN, 0, 1, 1);
hs_reject!(c19_q_hs_xx_r1_static, Pat::XX, 0, 1, 1);
hs_reject!(c19_q_hs_xx_r1_payload, Pat::XX, 0, 1, 2);
hs_reject!(c19_t_hs_ik_r0_payload, Pat::IK, 0, 0, 2);
hs_reject!(c19_t_hs_n_r0_payload, Pat::N, 0, 0, 1);

/// both transport types
#[kani::proof]
#[kani::unwind(34)]
pub fn c19_q_transport_reject() {
    let initiator: bool = kani::any();
    let stateless: bool = kani::any();
    let n: u64 = kani::any();
    kani::assume(n != u64::MAX);
    let msg: [u8; 40] = kani::any();
    let mlen: usize = kani::any();
    kani::assume(mlen >= 16 && mlen <= 40);
    let cap: usize = kani::any();
    kani::assume(cap >= mlen - 16 && cap <= 32);
    let mut out: [u8; 32] = kani::any();
    let before = out;
    unsafe {
        O_DEC_VERDICT[1] = false;
        O_DEC_VERDICT[2] = false;
    }
    let r = if stateless {
        let ts = StatelessTransportState::verif_from_parts(Box::new(OCipher::<1>), Box::new(OCipher::<2>), HandshakePattern::NN, 4, [0u8; MAXDHLEN], false, initiator);
        ts.read_message(n, &msg[..mlen], &mut out[..cap])
    } else {
        let mut ts = TransportState::verif_from_parts(Box::new(OCipher::<1>), n, Box::new(OCipher::<2>), n, HandshakePattern::NN, 4, [0u8; MAXDHLEN], false, initiator);
        ts.read_message(&msg[..mlen], &mut out[..cap])
    };
    kani::cover!(r == Err(snow::Error::Decrypt), "C19 transport rejection reachable");
    assert!(r == Err(snow::Error::Decrypt), "C03: a message that the cipher rejects was accepted");
    assert!(out == before, "C19: the caller's payload buffer was modified by a transport read that failed authentication");
}
