//! C04 (transport authentication) and C05 (in-order, exactly-once, rejections change nothing): one delivery of
//! a FULLY SYMBOLIC byte string to a receiver placed at an arbitrary receiving nonce, after the peer (and the
//! receiver itself, and a third session) have written messages under arbitrary nonces. The AEAD is the ideal
//! functionality (accepts exactly what was encrypted under the same key/nonce/AD), so "accepted" is a statement
//! about which cipher object, nonce and bytes snow handed to the cipher - no toy collisions are possible.
#![allow(static_mut_refs)]
use crate::stubs::*;
use snow::params::HandshakePattern;
use snow::verif::MAXDHLEN;
use snow::{StatelessTransportState, TransportState};

const DMAX: usize = 24;

fn eq_prefix(a: &[u8], alen: usize, b: &[u8; DMAX], blen: usize) -> bool {
    let mut eq = alen == blen;
    let mut i = 0;
    while i < DMAX {
        if i < alen && i < blen {
            eq &= a[i] == b[i];
        }
        i += 1;
    }
    eq
}

fn any_distinct_keys() -> ([u8; 32], [u8; 32], [u8; 32]) {
    let k1: [u8; 32] = kani::any();
    let k2: [u8; 32] = kani::any();
    let k3: [u8; 32] = kani::any();
    let d: usize = kani::any();
    let e: usize = kani::any();
    let f: usize = kani::any();
    kani::assume(d < 32 && e < 32 && f < 32);
    kani::assume(k1[d] != k2[d] && k1[e] != k3[e] && k2[f] != k3[f]);
    (k1, k2, k3)
}

/// `stateless_rx`: the receiver is a StatelessTransportState reading under an explicit nonce.
/// `rx_initiator`: role of the receiver (the peer has the other role).
pub fn deliver(stateless_rx: bool, rx_initiator: bool) {
    deliver_pat(stateless_rx, rx_initiator, false)
}

/// `oneway`: the session comes from a one-way pattern (the initiator must never read: whatever is delivered to it,
/// including its own messages, is refused; the peer of a one-way responder is the only writer).
pub fn deliver_pat(stateless_rx: bool, rx_initiator: bool, oneway: bool) {
    let pattern = if oneway { HandshakePattern::N } else { HandshakePattern::NN };
    let (k1, k2, k3) = any_distinct_keys();
    unsafe {
        // peer P: objects 1 (initiator-egress key k1), 2 (responder-egress key k2); receiver R: 4, 5; stranger: 6, 7
        CKEY[1] = k1;
        CKEY[2] = k2;
        CKEY[4] = k1;
        CKEY[5] = k2;
        CKEY[6] = k3;
        CKEY[7] = k3;
    }
    let mut peer = StatelessTransportState::verif_from_parts(Box::new(ICipher::<1>), Box::new(ICipher::<2>), pattern, 4, [0u8; MAXDHLEN], false, !rx_initiator);
    let mut stranger = StatelessTransportState::verif_from_parts(Box::new(ICipher::<6>), Box::new(ICipher::<7>), pattern, 4, [0u8; MAXDHLEN], false, !rx_initiator);
    // optionally every party first rekeys both of its directions (in step): authentication must be unaffected -
    // in particular the two directions and the stranger session must still have different keys afterwards
    let rekey_all: bool = kani::any();
    if rekey_all {
        peer.rekey_outgoing();
        peer.rekey_incoming();
        stranger.rekey_outgoing();
        stranger.rekey_incoming();
    }
    // two genuine messages of the peer under arbitrary nonces, one of a stranger session
    let j1: u64 = kani::any();
    let j2: u64 = kani::any();
    let j4: u64 = kani::any();
    kani::assume(j1 != u64::MAX && j2 != u64::MAX && j4 != u64::MAX);
    let p1: [u8; 4] = kani::any();
    let p2: [u8; 4] = kani::any();
    let l1: usize = kani::any();
    let l2: usize = kani::any();
    kani::assume(l1 <= 4 && l2 <= 4);
    let mut m1 = [0u8; DMAX];
    let mut m2 = [0u8; DMAX];
    let mut m4 = [0u8; DMAX];
    // in a one-way session only the initiator writes: when the receiver under test is the initiator, the "peer
    // messages" are its own reflected traffic, written by a stateless twin holding the same keys
    // (shares the peer's cipher objects 1 and 2, hence also their rekeyed keys)
    let twin = StatelessTransportState::verif_from_parts(Box::new(ICipher::<1>), Box::new(ICipher::<2>), pattern, 4, [0u8; MAXDHLEN], false, true);
    let writer = if oneway && rx_initiator { &twin } else { &peer };
    let n1 = writer.write_message(j1, &p1[..l1], &mut m1).unwrap();
    let n2 = writer.write_message(j2, &p2[..l2], &mut m2).unwrap();
    let _ = stranger.write_message(j4, &p1[..l1], &mut m4);

    let n_rx: u64 = kani::any();
    let n_tx: u64 = kani::any();
    let d: [u8; DMAX] = kani::any();
    let dlen: usize = kani::any();
    let cap: usize = kani::any();
    kani::assume(dlen <= DMAX && cap <= 8);
    let mut out = [0u8; 8];

    let (r, rx_after, tx_after, tx_before) = if stateless_rx {
        let mut rx = StatelessTransportState::verif_from_parts(Box::new(ICipher::<4>), Box::new(ICipher::<5>), pattern, 4, [0u8; MAXDHLEN], false, rx_initiator);
        if rekey_all {
            rx.rekey_outgoing();
            rx.rekey_incoming();
        }
        // the receiver's own message (reflection candidate), under the very nonce it will read with
        let mut m3 = [0u8; DMAX];
        let _ = rx.write_message(n_rx, &p2[..l2], &mut m3);
        (rx.read_message(n_rx, &d[..dlen], &mut out[..cap]), 0, 0, 0)
    } else {
        let (ni, nr) = if rx_initiator { (n_tx, n_rx) } else { (n_rx, n_tx) };
        let mut rx = TransportState::verif_from_parts(Box::new(ICipher::<4>), ni, Box::new(ICipher::<5>), nr, pattern, 4, [0u8; MAXDHLEN], false, rx_initiator);
        if rekey_all {
            rx.rekey_outgoing();
            rx.rekey_incoming();
        }
        let mut m3 = [0u8; DMAX];
        let _ = rx.write_message(&p2[..l2], &mut m3);
        let txb = rx.sending_nonce();
        let r = rx.read_message(&d[..dlen], &mut out[..cap]);
        (r, rx.receiving_nonce(), rx.sending_nonce(), txb)
    };

    let g1 = eq_prefix(&d, dlen, &m1, n1) && j1 == n_rx;
    let g2 = eq_prefix(&d, dlen, &m2, n2) && j2 == n_rx;
    let fits = dlen >= 16 && cap >= dlen - 16;
    let expect_ok = n_rx != u64::MAX && fits && (g1 || g2) && !(oneway && rx_initiator);
    kani::cover!(r.is_ok() || (oneway && rx_initiator), "C04 accept reachable");
    if oneway && rx_initiator {
        assert!(r.is_err(), "C04: the initiator of a one-way session accepted a transport message (its own, reflected)");
    }
    if r.is_ok() {
        assert!(g1 || g2, "C04: accepted a byte string that is not the peer's message for this direction and nonce");
    }
    assert!(r.is_ok() == expect_ok, "C05: accept iff it is the peer's message whose number equals the receiving nonce (and the buffer fits)");
    if let Ok(n) = r {
        let (p, l) = if g1 { (&p1, l1) } else { (&p2, l2) };
        assert!(n == l, "C04: delivered payload length");
        let mut i = 0;
        while i < 4 {
            if i < l {
                assert!(out[i] == p[i], "C04: delivered payload differs from what the peer wrote");
            }
            i += 1;
        }
    }
    if !stateless_rx {
        assert!(tx_after == tx_before, "C05: a read moved the sending nonce");
        if r.is_ok() {
            assert!(rx_after == n_rx + 1, "C05: accepted delivery must advance the receiving nonce by one");
        } else {
            assert!(rx_after == n_rx, "C05: a rejected delivery moved the receiving nonce");
        }
    }
}

macro_rules! deliver_harness {
    ($name:ident, $sl:expr, $ini:expr) => {
        #[kani::proof]
        #[kani::unwind(42)]
        pub fn $name() {
            deliver($sl, $ini);
        }
    };
}
deliver_harness!(c04_q_stateful_rx_responder, false, false);
#[kani::proof]
#[kani::unwind(42)]
pub fn c04_q_oneway_stateless_rx_initiator() {
    deliver_pat(true, true, true);
}
#[kani::proof]
#[kani::unwind(42)]
pub fn c04_q_oneway_stateful_rx_responder() {
    deliver_pat(false, false, true);
}
#[kani::proof]
#[kani::unwind(42)]
pub fn c04_t_oneway_stateful_rx_initiator() {
    deliver_pat(false, true, true);
}
deliver_harness!(c04_q_stateless_rx_initiator, true, true);
deliver_harness!(c04_t_stateful_rx_initiator, false, true);
deliver_harness!(c04_t_stateless_rx_responder, true, false);

/// The session keys come from the REAL Split() here (the harnesses above place keys through the from-parts hook): a
/// real responder writes the last message of NN over a 64-byte toy hash (the "truncate temp_k1 / temp_k2 to 32 bytes"
/// branch of Split) and converts; its own first transport message, reflected back to it under the same nonce, must be
/// refused. Toy AEAD with CONCRETE handshake inputs (the ideal AEAD of this file carries at most 8 bytes of associated
/// data, the handshake hash is 64 bytes here): the two Split() outputs of the specification are then concretely
/// different keys and the toy tag is key-dependent, so the reflected message is refused unless both directions were
/// given the same key. Symbolic: payload, mode, stateless nonce.
#[kani::proof]
#[kani::unwind(66)]
pub fn c04_q_reflection_after_real_split_hl64() {
    use super::common::*;
    use crate::glue::*;
    use crate::prims::Toy;
    use crate::rm::*;
    type P64 = Toy<64, 4, 4>;
    unsafe {
        CONCRETE_INPUTS = true;
    }
    let pro: [u8; 2] = [3, 4];
    let mut pair = rm_pair::<P64>(Pat::NN, 0, NAME.as_bytes(), &pro);
    rm_advance::<P64>(&mut pair, 1);
    let rmr = pair.r;
    let mut hs = snow_from_rm_a::<64, 4, 4>(&rmr, NAME, false);
    let e: [u8; 8] = sym8();
    set_rng_slot(0, &e);
    let mut m = [0u8; MSGBUF];
    let n = hs.write_message(&[1u8, 2u8], &mut m);
    assert!(n.is_ok() && hs.is_handshake_finished(), "C02: an honest last handshake write failed");
    let p: [u8; 2] = kani::any();
    let mut t = [0u8; 18];
    let mut out = [0u8; 8];
    let stateless: bool = kani::any();
    kani::cover!(stateless, "C04 reflection harness reached");
    if stateless {
        let ts = hs.into_stateless_transport_mode();
        assert!(ts.is_ok(), "C11: stateless conversion refused after the last message");
        if let Ok(ts) = ts {
            let nonce: u64 = kani::any();
            kani::assume(nonce != u64::MAX);
            assert!(ts.write_message(nonce, &p, &mut t) == Ok(18), "C02: a legitimate stateless transport write failed");
            assert!(ts.read_message(nonce, &t, &mut out).is_err(), "C04: a message reflected back to its own sender was accepted (stateless)");
            core::mem::forget(ts);
        }
    } else {
        let ts = hs.into_transport_mode();
        assert!(ts.is_ok(), "C11: conversion refused after the last message");
        if let Ok(mut ts) = ts {
            assert!(ts.write_message(&p, &mut t) == Ok(18), "C02: a legitimate transport write failed");
            assert!(ts.read_message(&t, &mut out).is_err(), "C04: a message reflected back to its own sender was accepted");
            core::mem::forget(ts);
        }
    }
}
