//! C08 — a channel exists only if both sides agree on name, prologue, PSKs and pre-shared static keys.
//! Two reference-model parties that differ in exactly ONE context item (symbolic non-zero byte difference) run the
//! handshake up to the first message that carries an authenticated field after the item was mixed; the real snow
//! receiver, in the state the specification gives it, must reject that message. With the xor/rotate toy
//! primitives a difference in a mixed item propagates linearly into h / ck / k, so "rejected" is decided by the
//! solver as "the difference does not cancel"; a snow that fails to mix the item makes the difference vanish and
//! the message is accepted. Where each item enters (h, ck, k) is pinned independently by C01's init/step checks.
#![allow(static_mut_refs)]
use super::common::*;
use crate::glue::*;
use crate::prims::{Prims, Toy};
use crate::rm::*;

type P = Toy<8, 4, 4>;

#[derive(Clone, Copy, PartialEq)]
pub enum Item {
    Prologue,
    NameByte,
    Psk(usize),
    /// the initiator's copy of the responder's static public key is wrong
    RsOfInitiator,
    /// the responder's copy of the initiator's static public key is wrong
    RsOfResponder,
}

pub fn mismatch(pat: Pat, psk_mask: u16, item: Item, k: usize) {
    mismatch_inner(pat, psk_mask, item, k, false)
}

/// `two_real`: the writer is a real snow endpoint too (a defect that makes BOTH sides ignore an item is invisible
/// when one side is the specification: it shows as non-conformance in C01 instead).
pub fn mismatch_inner(pat: Pat, psk_mask: u16, item: Item, k: usize, two_real: bool) {
    // Only the disagreement itself is symbolic. With xor/rotate toy primitives a difference propagates linearly
    // and independently of the other inputs, so concrete keys lose nothing, while fully symbolic ones turn the
    // query into GF(2) linear algebra that CDCL solvers are bad at (measured: 400 s instead of 2 s).
    unsafe {
        CONCRETE_INPUTS = true;
    }
    let delta: u8 = kani::any();
    kani::assume(delta != 0);
    let p8 = sym8();
    let pro: [u8; 2] = [p8[0], p8[1]];
    let mut pro_r = pro;
    let name_i = NAME.as_bytes();
    let mut name_r = [0u8; 32];
    let mut j = 0;
    while j < 32 {
        name_r[j] = name_i[j];
        j += 1;
    }
    let si: [u8; 8] = sym8();
    let sr: [u8; 8] = sym8();
    let mut pi = [0u8; 8];
    let mut pr = [0u8; 8];
    P::pubkey(&si[..4], &mut pi);
    P::pubkey(&sr[..4], &mut pr);
    let mut pi_seen_by_r = pi;
    let mut pr_seen_by_i = pr;
    let psks = any_psks();
    let mut psks_r = psks;
    match item {
        Item::Prologue => pro_r[1] ^= delta,
        Item::NameByte => name_r[7] ^= delta,
        Item::Psk(n) => psks_r[n][0] ^= delta,
        Item::RsOfInitiator => pr_seen_by_i[2] ^= delta,
        Item::RsOfResponder => pi_seen_by_r[0] ^= delta,
    }
    let i = HsOps::<P>::initialize(
        pat, psk_mask, true, name_i, &pro,
        if pat.needs_local_static(true) { Some(&si[..4]) } else { None },
        if pat.needs_remote_static(true) { Some(&pr_seen_by_i[..4]) } else { None },
        psks, psk_mask,
    );
    let r = HsOps::<P>::initialize(
        pat, psk_mask, false, &name_r, &pro_r,
        if pat.needs_local_static(false) { Some(&sr[..4]) } else { None },
        if pat.needs_remote_static(false) { Some(&pi_seen_by_r[..4]) } else { None },
        psks_r, psk_mask,
    );
    let mut pair = Pair { i, r };
    // messages before k carry no authenticated field that depends on the item: the model parties get through them
    rm_advance::<P>(&mut pair, k);
    let (mut rmw, mut rmr) = if k % 2 == 0 { (pair.i, pair.r) } else { (pair.r, pair.i) };
    let rname = if rmr.initiator { NAME } else { unsafe { core::str::from_utf8_unchecked(&name_r) } };
    let mut hs = snow_from_rm_a::<8, 4, 4>(&rmr, rname, false);
    let e: [u8; 8] = sym8();
    let payload: [u8; 2] = [sym8()[0], sym8()[1]];
    let mut msg = [0u8; MSGBUF];
    let mut ok = true;
    let mut out = [0u8; 8];
    kani::cover!(true, "C08 mismatch harness reached");
    if two_real {
        let wname = if rmw.initiator { NAME } else { unsafe { core::str::from_utf8_unchecked(&name_r) } };
        let mut w = snow_from_rm_b::<8, 4, 4>(&rmw, wname, false);
        set_rng_slot(0, &e);
        let n = w.write_message(&payload, &mut msg);
        assert!(n.is_ok(), "C02: an honest handshake write failed");
        let res = hs.read_message(&msg[..n.unwrap_or(0)], &mut out);
        assert!(res.is_err(), "C08: a handshake message between two real endpoints was accepted although they disagree on a context item");
        return;
    }
    let n = HsOps::<P>::write(&mut rmw, &e[..4], &payload, &mut msg, &mut ok);
    let res = hs.read_message(&msg[..n], &mut out);
    let mut ok_r = true;
    HsOps::<P>::read(&mut rmr, &msg[..n], &mut out, &mut ok_r);
    assert!(!ok_r, "C08 harness: the specification itself accepts at this message (wrong detection point or linear cancellation)");
    assert!(res.is_err(), "C08: a handshake message was accepted although the two sides disagree on a context item");
    assert!(!hs.is_handshake_finished() || k + 1 < pat.nmsgs(), "C08: handshake finished despite the disagreement");
}

macro_rules! mismatch_harness {
    ($name:ident, $pat:expr, $mask:expr, $item:expr, $k:expr) => {
        #[kani::proof]
        #[kani::unwind(34)]
        pub fn $name() {
            mismatch($pat, $mask, $item, $k);
        }
    };
}
mismatch_harness!(c08_q_nn_prologue, Pat::NN, 0, Item::Prologue, 1);
mismatch_harness!(c08_q_nn_name, Pat::NN, 0, Item::NameByte, 1);
mismatch_harness!(c08_q_nnpsk0_psk, Pat::NN, 1, Item::Psk(0), 0);
mismatch_harness!(c08_q_nnpsk0psk1_second_psk, Pat::NN, 3, Item::Psk(1), 0);
mismatch_harness!(c08_q_nk_rs, Pat::NK, 0, Item::RsOfInitiator, 0);
mismatch_harness!(c08_q_kn_rs, Pat::KN, 0, Item::RsOfResponder, 1);
mismatch_harness!(c08_q_n_prologue, Pat::N, 0, Item::Prologue, 0);
mismatch_harness!(c08_t_xxpsk3_psk, Pat::XX, 8, Item::Psk(3), 2);
mismatch_harness!(c08_t_xx_prologue, Pat::XX, 0, Item::Prologue, 1);
mismatch_harness!(c08_t_ik_rs, Pat::IK, 0, Item::RsOfInitiator, 0);
mismatch_harness!(c08_t_kk_rs_r, Pat::KK, 0, Item::RsOfResponder, 0);
mismatch_harness!(c08_t_nnpsk2_psk, Pat::NN, 4, Item::Psk(2), 1);
mismatch_harness!(c08_t_ik_name, Pat::IK, 0, Item::NameByte, 0);

macro_rules! mismatch2_harness {
    ($name:ident, $pat:expr, $mask:expr, $item:expr, $k:expr) => {
        #[kani::proof]
        #[kani::unwind(34)]
        pub fn $name() {
            mismatch_inner($pat, $mask, $item, $k, true);
        }
    };
}
mismatch2_harness!(c08_q_tworeal_nnpsk0psk1_second_psk, Pat::NN, 3, Item::Psk(1), 0);
mismatch2_harness!(c08_q_tworeal_nn_prologue, Pat::NN, 0, Item::Prologue, 1);
mismatch2_harness!(c08_q_tworeal_nk_rs, Pat::NK, 0, Item::RsOfInitiator, 0);
mismatch2_harness!(c08_t_tworeal_xxpsk0psk3_psk3, Pat::XX, 9, Item::Psk(3), 2);
mismatch2_harness!(c08_t_tworeal_kk_rs_r, Pat::KK, 0, Item::RsOfResponder, 0);
mismatch2_harness!(c08_t_tworeal_nnpsk1psk2_psk2, Pat::NN, 6, Item::Psk(2), 1);

/// Through the real `Builder`: two endpoints configured with prologues that agree on the first 128 bytes (a hash
/// block of the largest hash) and differ in one later byte (symbolic non-zero difference), or in length, must not
/// even start from the same handshake hash.
#[kani::proof]
#[kani::unwind(140)]
pub fn c08_q_builder_long_prologue_mismatch() {
    use crate::stubs::*;
    const PRO: usize = 131;
    let delta: u8 = kani::any();
    kani::assume(delta != 0);
    let pos: usize = kani::any();
    kani::assume(pos >= 128 && pos < PRO);
    let pa = [0x33u8; PRO];
    let mut pb = pa;
    pb[pos] ^= delta;
    let shorter: bool = kani::any();
    let pb_used: &[u8] = if shorter { &pa[..PRO - 1] } else { &pb };
    let a = snow::Builder::with_resolver(mk_params(NAME, Pat::NN, 0), Box::new(ToyResolver)).prologue(&pa).unwrap().build_initiator();
    let b = snow::Builder::with_resolver(mk_params(NAME, Pat::NN, 0), Box::new(ToyResolverB)).prologue(pb_used).unwrap().build_responder();
    kani::cover!(a.is_ok() && b.is_ok(), "C08 builder mismatch harness reached");
    assert!(a.is_ok() && b.is_ok(), "C12: Builder refused a complete configuration");
    if let (Ok(a), Ok(b)) = (a, b) {
        let (ha, hb) = (a.get_handshake_hash(), b.get_handshake_hash());
        let mut same = true;
        let mut j = 0;
        while j < 8 {
            same &= ha[j] == hb[j];
            j += 1;
        }
        assert!(!same, "C08: two endpoints whose prologues differ (beyond the first 128 bytes / in length) start from the same handshake hash");
        core::mem::forget(a);
        core::mem::forget(b);
    }
}
