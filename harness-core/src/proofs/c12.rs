//! C12 — the builder accepts exactly the configurations the pattern needs; plus the builder half of C10
//! (keys / prologue of any length never panic). Real `Builder::build_*` over a stub resolver.
#![allow(static_mut_refs)]
use crate::glue::snow_pat;
use crate::rm::*;
use crate::stubs::*;
use snow::error::{InitStage, PatternProblem, Prerequisite};
use snow::params::*;
use snow::{Builder, Error};

fn params_with(pat: Pat, mods: Vec<HandshakeModifier>) -> NoiseParams {
    NoiseParams::new(
        "Noise_test".to_owned(),
        BaseChoice::Noise,
        HandshakeChoice { pattern: snow_pat(pat), modifiers: HandshakeModifierList { list: mods } },
        DHChoice::Curve25519,
        CipherChoice::ChaChaPoly,
        HashChoice::SHA256,
    )
}

static PSK: [u8; 32] = [7u8; 32];
static KEY4: [u8; 4] = [1, 2, 3, 4];

/// One pattern and one concrete modifier list (symbolic modifier *values* make `apply_psk_modifier` index a
/// heap-allocated token table symbolically: measured > 300 s symex and out of memory); role, supplied keys and
/// resolver availability are symbolic. 10 = fallback, 0..=9 = pskN, 255 = absent.
pub fn build_case(pat: Pat, m1: u8, m2: u8) {
    // modifier handling does not depend on role, keys or resolver (it happens after those checks): with a
    // modifier list everything else is concrete (both roles are run), without one everything else is symbolic
    let sym = m1 == 255 && m2 == 255;
    build_case_inner(pat, m1, m2, sym, true);
    if !sym {
        build_case_inner(pat, m1, m2, false, false);
    }
}

fn build_case_inner(pat: Pat, m1: u8, m2: u8, sym: bool, role: bool) {
    unsafe {
        RES_DH_CALLS = 0;
        RES_CIPHER_CALLS = 0;
    }
    let initiator: bool = if sym { kani::any() } else { role };
    let has_s: bool = if sym { kani::any() } else { true };
    let has_rs: bool = if sym { kani::any() } else { true };
    let avail = if sym {
        StubResolver { rng: kani::any(), dh: kani::any(), cipher: kani::any(), hash: kani::any() }
    } else {
        StubResolver { rng: true, dh: true, cipher: true, hash: true }
    };
    let all_prims = avail.rng && avail.dh && avail.cipher && avail.hash;
    let mk = |m: u8| if m == 10 { HandshakeModifier::Fallback } else { HandshakeModifier::Psk(m) };
    let mut mods = Vec::new();
    if m1 != 255 {
        mods.push(mk(m1));
    }
    if m2 != 255 {
        mods.push(mk(m2));
    }
    let mut b = Builder::with_resolver(params_with(pat, mods), Box::new(avail));
    if has_s {
        b = b.local_private_key(&KEY4).unwrap();
    }
    if has_rs {
        b = b.remote_public_key(&KEY4).unwrap();
    }
    // whether PSKs were supplied does not influence build (a missing PSK is reported by the message that needs it:
    // C11's missing-PSK harnesses); one is supplied here to exercise Builder::psk
    b = b.psk(0, &PSK).unwrap();
    let r = if initiator { b.build_initiator() } else { b.build_responder() };

    // expectation, derived from the reference model's token table
    let need_s = pat.needs_local_static(initiator);
    let need_rs = pat.needs_remote_static(initiator);
    let keys_ok = (!need_s || has_s) && (!need_rs || has_rs);
    let n = pat.nmsgs() as u8;
    let mod_ok = |m: u8| m == 255 || (m != 10 && m <= n);
    let mods_ok = mod_ok(m1) && mod_ok(m2);
    let expect_ok = keys_ok && all_prims && mods_ok;
    assert!(r.is_ok() == expect_ok, "C12: build succeeds iff required keys, implemented in-range modifiers and all primitives are present");
    match r {
        Err(e) => {
            // every reported cause must be a real one
            let real = match e {
                Error::Prereq(Prerequisite::LocalPrivateKey) => need_s && !has_s,
                Error::Prereq(Prerequisite::RemotePublicKey) => need_rs && !has_rs,
                Error::Init(InitStage::GetRngImpl) => !avail_rng(all_prims),
                Error::Init(InitStage::GetDhImpl) => !all_prims,
                Error::Init(InitStage::GetCipherImpl) => !all_prims,
                Error::Init(InitStage::GetHashImpl) => !all_prims,
                Error::Pattern(PatternProblem::InvalidPsk) => !mods_ok,
                Error::Pattern(PatternProblem::UnsupportedModifier) => !mods_ok,
                _ => false,
            };
            assert!(real, "C12: build reported an error whose cause is not present");
        },
        Ok(hs) => {
            assert!(hs.is_initiator() == initiator && hs.is_my_turn() == initiator && !hs.is_handshake_finished(), "C12: fresh handshake state indicators");
            core::mem::forget(hs);
        },
    }
}

fn avail_rng(all: bool) -> bool {
    all
}

macro_rules! build_harness {
    ($name:ident, $pat:expr, [$(($m1:expr, $m2:expr)),*]) => {
        #[kani::proof]
        #[kani::unwind(12)]
        pub fn $name() {
            $( build_case($pat, $m1, $m2); )*
            kani::cover!(true, "C12 reached");
        }
    };
}
// quick: no modifier, last valid psk, first invalid psk / fallback, one pair
build_harness!(c12_q_nn, Pat::NN, [(255, 255), (2, 255), (3, 255)]);
build_harness!(c12_q_xx, Pat::XX, [(255, 255), (3, 0), (10, 255)]);
build_harness!(c12_q_ik, Pat::IK, [(255, 255), (0, 255), (1, 9)]);
build_harness!(c12_q_k, Pat::K, [(255, 255), (1, 255), (2, 255)]);
build_harness!(c12_q_x1k1, Pat::X1K1, [(255, 255), (4, 255), (5, 255)]);
build_harness!(c12_q_kx1, Pat::KX1, [(255, 255), (0, 10)]);
build_harness!(c12_t_n_a, Pat::N, [(255, 255), (0, 255), (1, 255), (2, 255), (3, 255), (4, 255)]);
build_harness!(c12_t_n_b, Pat::N, [(5, 255), (6, 255), (7, 255), (8, 255), (9, 255), (10, 255), (0, 1), (2, 10)]);
build_harness!(c12_t_x_a, Pat::X, [(255, 255), (0, 255), (1, 255), (2, 255), (3, 255), (4, 255)]);
build_harness!(c12_t_x_b, Pat::X, [(5, 255), (6, 255), (7, 255), (8, 255), (9, 255), (10, 255), (0, 1), (2, 10)]);
build_harness!(c12_t_k_a, Pat::K, [(255, 255), (0, 255), (1, 255), (2, 255), (3, 255), (4, 255)]);
build_harness!(c12_t_k_b, Pat::K, [(5, 255), (6, 255), (7, 255), (8, 255), (9, 255), (10, 255), (0, 1), (2, 10)]);
build_harness!(c12_t_nn_a, Pat::NN, [(255, 255), (0, 255), (1, 255), (2, 255), (3, 255), (4, 255)]);
build_harness!(c12_t_nn_b, Pat::NN, [(5, 255), (6, 255), (7, 255), (8, 255), (9, 255), (10, 255), (0, 1), (2, 10)]);
build_harness!(c12_t_nk_a, Pat::NK, [(255, 255), (0, 255), (1, 255), (2, 255), (3, 255), (4, 255)]);
build_harness!(c12_t_nk_b, Pat::NK, [(5, 255), (6, 255), (7, 255), (8, 255), (9, 255), (10, 255), (0, 1), (2, 10)]);
build_harness!(c12_t_nx_a, Pat::NX, [(255, 255), (0, 255), (1, 255), (2, 255), (3, 255), (4, 255)]);
build_harness!(c12_t_nx_b, Pat::NX, [(5, 255), (6, 255), (7, 255), (8, 255), (9, 255), (10, 255), (0, 1), (2, 10)]);
build_harness!(c12_t_xn_a, Pat::XN, [(255, 255), (0, 255), (1, 255), (2, 255), (3, 255), (4, 255)]);
build_harness!(c12_t_xn_b, Pat::XN, [(5, 255), (6, 255), (7, 255), (8, 255), (9, 255), (10, 255), (0, 1), (2, 10)]);
build_harness!(c12_t_xk_a, Pat::XK, [(255, 255), (0, 255), (1, 255), (2, 255), (3, 255), (4, 255)]);
build_harness!(c12_t_xk_b, Pat::XK, [(5, 255), (6, 255), (7, 255), (8, 255), (9, 255), (10, 255), (0, 1), (2, 10)]);
build_harness!(c12_t_xx_a, Pat::XX, [(255, 255), (0, 255), (1, 255), (2, 255), (3, 255), (4, 255)]);
build_harness!(c12_t_xx_b, Pat::XX, [(5, 255), (6, 255), (7, 255), (8, 255), (9, 255), (10, 255), (0, 1), (2, 10)]);
build_harness!(c12_t_kn_a, Pat::KN, [(255, 255), (0, 255), (1, 255), (2, 255), (3, 255), (4, 255)]);
build_harness!(c12_t_kn_b, Pat::KN, [(5, 255), (6, 255), (7, 255), (8, 255), (9, 255), (10, 255), (0, 1), (2, 10)]);
build_harness!(c12_t_kk_a, Pat::KK, [(255, 255), (0, 255), (1, 255), (2, 255), (3, 255), (4, 255)]);
build_harness!(c12_t_kk_b, Pat::KK, [(5, 255), (6, 255), (7, 255), (8, 255), (9, 255), (10, 255), (0, 1), (2, 10)]);
build_harness!(c12_t_kx_a, Pat::KX, [(255, 255), (0, 255), (1, 255), (2, 255), (3, 255), (4, 255)]);
build_harness!(c12_t_kx_b, Pat::KX, [(5, 255), (6, 255), (7, 255), (8, 255), (9, 255), (10, 255), (0, 1), (2, 10)]);
build_harness!(c12_t_in_a, Pat::IN, [(255, 255), (0, 255), (1, 255), (2, 255), (3, 255), (4, 255)]);
build_harness!(c12_t_in_b, Pat::IN, [(5, 255), (6, 255), (7, 255), (8, 255), (9, 255), (10, 255), (0, 1), (2, 10)]);
build_harness!(c12_t_ik_a, Pat::IK, [(255, 255), (0, 255), (1, 255), (2, 255), (3, 255), (4, 255)]);
build_harness!(c12_t_ik_b, Pat::IK, [(5, 255), (6, 255), (7, 255), (8, 255), (9, 255), (10, 255), (0, 1), (2, 10)]);
build_harness!(c12_t_ix_a, Pat::IX, [(255, 255), (0, 255), (1, 255), (2, 255), (3, 255), (4, 255)]);
build_harness!(c12_t_ix_b, Pat::IX, [(5, 255), (6, 255), (7, 255), (8, 255), (9, 255), (10, 255), (0, 1), (2, 10)]);
build_harness!(c12_t_nk1_a, Pat::NK1, [(255, 255), (0, 255), (1, 255), (2, 255), (3, 255), (4, 255)]);
build_harness!(c12_t_nk1_b, Pat::NK1, [(5, 255), (6, 255), (7, 255), (8, 255), (9, 255), (10, 255), (0, 1), (2, 10)]);
build_harness!(c12_t_nx1_a, Pat::NX1, [(255, 255), (0, 255), (1, 255), (2, 255), (3, 255), (4, 255)]);
build_harness!(c12_t_nx1_b, Pat::NX1, [(5, 255), (6, 255), (7, 255), (8, 255), (9, 255), (10, 255), (0, 1), (2, 10)]);
build_harness!(c12_t_x1n_a, Pat::X1N, [(255, 255), (0, 255), (1, 255), (2, 255), (3, 255), (4, 255)]);
build_harness!(c12_t_x1n_b, Pat::X1N, [(5, 255), (6, 255), (7, 255), (8, 255), (9, 255), (10, 255), (0, 1), (2, 10)]);
build_harness!(c12_t_x1k_a, Pat::X1K, [(255, 255), (0, 255), (1, 255), (2, 255), (3, 255), (4, 255)]);
build_harness!(c12_t_x1k_b, Pat::X1K, [(5, 255), (6, 255), (7, 255), (8, 255), (9, 255), (10, 255), (0, 1), (2, 10)]);
build_harness!(c12_t_xk1_a, Pat::XK1, [(255, 255), (0, 255), (1, 255), (2, 255), (3, 255), (4, 255)]);
build_harness!(c12_t_xk1_b, Pat::XK1, [(5, 255), (6, 255), (7, 255), (8, 255), (9, 255), (10, 255), (0, 1), (2, 10)]);
build_harness!(c12_t_x1k1_a, Pat::X1K1, [(255, 255), (0, 255), (1, 255), (2, 255), (3, 255), (4, 255)]);
build_harness!(c12_t_x1k1_b, Pat::X1K1, [(5, 255), (6, 255), (7, 255), (8, 255), (9, 255), (10, 255), (0, 1), (2, 10)]);
build_harness!(c12_t_x1x_a, Pat::X1X, [(255, 255), (0, 255), (1, 255), (2, 255), (3, 255), (4, 255)]);
build_harness!(c12_t_x1x_b, Pat::X1X, [(5, 255), (6, 255), (7, 255), (8, 255), (9, 255), (10, 255), (0, 1), (2, 10)]);
build_harness!(c12_t_xx1_a, Pat::XX1, [(255, 255), (0, 255), (1, 255), (2, 255), (3, 255), (4, 255)]);
build_harness!(c12_t_xx1_b, Pat::XX1, [(5, 255), (6, 255), (7, 255), (8, 255), (9, 255), (10, 255), (0, 1), (2, 10)]);
build_harness!(c12_t_x1x1_a, Pat::X1X1, [(255, 255), (0, 255), (1, 255), (2, 255), (3, 255), (4, 255)]);
build_harness!(c12_t_x1x1_b, Pat::X1X1, [(5, 255), (6, 255), (7, 255), (8, 255), (9, 255), (10, 255), (0, 1), (2, 10)]);
build_harness!(c12_t_k1n_a, Pat::K1N, [(255, 255), (0, 255), (1, 255), (2, 255), (3, 255), (4, 255)]);
build_harness!(c12_t_k1n_b, Pat::K1N, [(5, 255), (6, 255), (7, 255), (8, 255), (9, 255), (10, 255), (0, 1), (2, 10)]);
build_harness!(c12_t_k1k_a, Pat::K1K, [(255, 255), (0, 255), (1, 255), (2, 255), (3, 255), (4, 255)]);
build_harness!(c12_t_k1k_b, Pat::K1K, [(5, 255), (6, 255), (7, 255), (8, 255), (9, 255), (10, 255), (0, 1), (2, 10)]);
build_harness!(c12_t_kk1_a, Pat::KK1, [(255, 255), (0, 255), (1, 255), (2, 255), (3, 255), (4, 255)]);
build_harness!(c12_t_kk1_b, Pat::KK1, [(5, 255), (6, 255), (7, 255), (8, 255), (9, 255), (10, 255), (0, 1), (2, 10)]);
build_harness!(c12_t_k1k1_a, Pat::K1K1, [(255, 255), (0, 255), (1, 255), (2, 255), (3, 255), (4, 255)]);
build_harness!(c12_t_k1k1_b, Pat::K1K1, [(5, 255), (6, 255), (7, 255), (8, 255), (9, 255), (10, 255), (0, 1), (2, 10)]);
build_harness!(c12_t_k1x_a, Pat::K1X, [(255, 255), (0, 255), (1, 255), (2, 255), (3, 255), (4, 255)]);
build_harness!(c12_t_k1x_b, Pat::K1X, [(5, 255), (6, 255), (7, 255), (8, 255), (9, 255), (10, 255), (0, 1), (2, 10)]);
build_harness!(c12_t_kx1_a, Pat::KX1, [(255, 255), (0, 255), (1, 255), (2, 255), (3, 255), (4, 255)]);
build_harness!(c12_t_kx1_b, Pat::KX1, [(5, 255), (6, 255), (7, 255), (8, 255), (9, 255), (10, 255), (0, 1), (2, 10)]);
build_harness!(c12_t_k1x1_a, Pat::K1X1, [(255, 255), (0, 255), (1, 255), (2, 255), (3, 255), (4, 255)]);
build_harness!(c12_t_k1x1_b, Pat::K1X1, [(5, 255), (6, 255), (7, 255), (8, 255), (9, 255), (10, 255), (0, 1), (2, 10)]);
build_harness!(c12_t_i1n_a, Pat::I1N, [(255, 255), (0, 255), (1, 255), (2, 255), (3, 255), (4, 255)]);
build_harness!(c12_t_i1n_b, Pat::I1N, [(5, 255), (6, 255), (7, 255), (8, 255), (9, 255), (10, 255), (0, 1), (2, 10)]);
build_harness!(c12_t_i1k_a, Pat::I1K, [(255, 255), (0, 255), (1, 255), (2, 255), (3, 255), (4, 255)]);
build_harness!(c12_t_i1k_b, Pat::I1K, [(5, 255), (6, 255), (7, 255), (8, 255), (9, 255), (10, 255), (0, 1), (2, 10)]);
build_harness!(c12_t_ik1_a, Pat::IK1, [(255, 255), (0, 255), (1, 255), (2, 255), (3, 255), (4, 255)]);
build_harness!(c12_t_ik1_b, Pat::IK1, [(5, 255), (6, 255), (7, 255), (8, 255), (9, 255), (10, 255), (0, 1), (2, 10)]);
build_harness!(c12_t_i1k1_a, Pat::I1K1, [(255, 255), (0, 255), (1, 255), (2, 255), (3, 255), (4, 255)]);
build_harness!(c12_t_i1k1_b, Pat::I1K1, [(5, 255), (6, 255), (7, 255), (8, 255), (9, 255), (10, 255), (0, 1), (2, 10)]);
build_harness!(c12_t_i1x_a, Pat::I1X, [(255, 255), (0, 255), (1, 255), (2, 255), (3, 255), (4, 255)]);
build_harness!(c12_t_i1x_b, Pat::I1X, [(5, 255), (6, 255), (7, 255), (8, 255), (9, 255), (10, 255), (0, 1), (2, 10)]);
build_harness!(c12_t_ix1_a, Pat::IX1, [(255, 255), (0, 255), (1, 255), (2, 255), (3, 255), (4, 255)]);
build_harness!(c12_t_ix1_b, Pat::IX1, [(5, 255), (6, 255), (7, 255), (8, 255), (9, 255), (10, 255), (0, 1), (2, 10)]);
build_harness!(c12_t_i1x1_a, Pat::I1X1, [(255, 255), (0, 255), (1, 255), (2, 255), (3, 255), (4, 255)]);
build_harness!(c12_t_i1x1_b, Pat::I1X1, [(5, 255), (6, 255), (7, 255), (8, 255), (9, 255), (10, 255), (0, 1), (2, 10)]);

/// C10, builder half: keys and prologue of ANY length 0..=200 on either role never panic.
#[kani::proof]
#[kani::unwind(12)]
pub fn c10_q_builder_key_lengths() {
    static BYTES: [u8; 200] = [9u8; 200];
    let initiator: bool = kani::any();
    let ls: usize = kani::any();
    let lr: usize = kani::any();
    let le: usize = kani::any();
    let lp: usize = kani::any();
    kani::assume(ls <= 200 && lr <= 200 && le <= 200 && lp <= 200);
    let use_e: bool = kani::any();
    let avail = StubResolver { rng: true, dh: true, cipher: true, hash: true };
    let mut b = Builder::with_resolver(params_with(Pat::KK, Vec::new()), Box::new(avail));
    b = b.local_private_key(&BYTES[..ls]).unwrap();
    b = b.remote_public_key(&BYTES[..lr]).unwrap();
    b = b.prologue(&BYTES[..lp]).unwrap();
    if use_e {
        b = b.fixed_ephemeral_key_for_testing_only(&BYTES[..le]);
    }
    let r = if initiator { b.build_initiator() } else { b.build_responder() };
    kani::cover!(r.is_ok(), "C10 builder ok reachable");
    kani::cover!(r.is_err(), "C10 builder err reachable");
    if ls == 4 && lr == 4 && (!use_e || le == 4) {
        assert!(r.is_ok(), "C10/C12: keys of exactly the DH's lengths must be accepted");
    }
    if let Ok(hs) = r {
        core::mem::forget(hs);
    }
}

/// The two public requirement tables, all 38 patterns x both roles in one query (symbolic pattern and role):
/// `needs_local_static_key` / `need_known_remote_pubkey` must equal what the reference model derives from its
/// token table (own `s` pre-message, an `s` token the role sends, or a DH token using its static key /
/// the peer's `s` pre-message).
#[kani::proof]
#[kani::unwind(8)]
pub fn c12_q_requirement_tables() {
    let idx: usize = kani::any();
    kani::assume(idx < 38);
    let initiator: bool = kani::any();
    let sp = SUPPORTED_HANDSHAKE_PATTERNS[idx];
    let mut want_local = false;
    let mut want_remote = false;
    // concrete walk over the reference table, selected by the symbolic index
    let mut c = 0;
    while c < 7 {
        let mut j = 0;
        while j < 6 {
            let i = c * 6 + j;
            if i < 38 && i == idx {
                want_local = ALL_PATS[i].needs_local_static(initiator);
                want_remote = ALL_PATS[i].needs_remote_static(initiator);
            }
            j += 1;
        }
        c += 1;
    }
    kani::cover!(idx == 17 && initiator, "C12 tables: X1N initiator reachable");
    assert!(sp.needs_local_static_key(initiator) == want_local, "C12: needs_local_static_key disagrees with the pattern's tokens");
    assert!(sp.need_known_remote_pubkey(initiator) == want_remote, "C12: need_known_remote_pubkey disagrees with the pattern's pre-messages");
}

/// C10: `HandshakeState::set_psk` with ANY location (full usize) and any key length 0..=40 returns Ok or Err, never
/// panics; Ok iff the length is 32 and the location is one of the 10 slots; and `Builder::psk` with any location.
#[kani::proof]
#[kani::unwind(12)]
pub fn c10_q_set_psk_any_location_and_length() {
    use crate::glue::*;
    use crate::prims::Toy;
    static KEYBYTES: [u8; 40] = [0x77u8; 40];
    let rm = HsOps::<Toy<8, 4, 4>>::initialize(Pat::NN, 1, true, b"Noise_test", &[], None, None, [[0u8; 32]; 10], 0);
    let mut hs = snow_from_rm_oracle::<4, 4>(&rm, "Noise_test", false);
    let loc: usize = kani::any();
    let len: usize = kani::any();
    kani::assume(len <= 40);
    let r = hs.set_psk(loc, &KEYBYTES[..len]);
    kani::cover!(r.is_ok(), "C10 set_psk ok reachable");
    kani::cover!(r.is_err() && loc > 1000, "C10 set_psk far out of range reachable");
    assert!(r.is_ok() == (len == 32 && loc < 10), "C10: set_psk succeeds iff the key has 32 bytes and the location is a valid slot");
    if r.is_err() {
        assert!(r == Err(Error::Input), "C10: set_psk reports bad arguments as an input error");
    }
    let bloc: u8 = kani::any();
    let b = Builder::with_resolver(params_with(Pat::NN, Vec::new()), Box::new(StubResolver { rng: true, dh: true, cipher: true, hash: true })).psk(bloc, &PSK);
    assert!(b.is_ok() == (bloc < 10), "C10: Builder::psk accepts exactly the 10 slots");
    core::mem::forget(b);
    core::mem::forget(hs);
}

/// "A PSK that was not supplied is never replaced by a default": the PSK table of the state produced by the real
/// `Builder` holds exactly the supplied keys in exactly the supplied slots, everything else empty. Slot choices are
/// concrete (symbolic slot indices through `Builder::psk` and the copy loop in `build` did not finish in 10 min);
/// the key bytes are symbolic.
fn psk_table_case(a: u8, b: Option<u8>) {
    use snow::verif;
    unsafe {
        RES_DH_CALLS = 0;
        RES_CIPHER_CALLS = 0;
    }
    let k1: [u8; 32] = kani::any();
    let k2: [u8; 32] = kani::any();
    let mut bld = Builder::with_resolver(params_with(Pat::NN, vec![HandshakeModifier::Psk(0)]), Box::new(StubResolver { rng: true, dh: true, cipher: true, hash: true }));
    bld = bld.psk(a, &k1).unwrap();
    if let Some(b) = b {
        bld = bld.psk(b, &k2).unwrap();
    }
    let r = bld.build_initiator();
    assert!(r.is_ok(), "C12: Builder refused a complete configuration");
    if let Ok(hs) = r {
        let snap = verif::snapshot(&hs);
        let mut i = 0;
        while i < 10 {
            let want: Option<[u8; 32]> = if i == a as usize {
                Some(k1)
            } else if b == Some(i as u8) {
                Some(k2)
            } else {
                None
            };
            assert!(snap.psks[i] == want, "C12: the handshake state's PSK table differs from what was supplied (a missing PSK must stay missing)");
            i += 1;
        }
        core::mem::forget(hs);
    }
}

#[kani::proof]
#[kani::unwind(34)]
pub fn c12_q_builder_psk_table() {
    psk_table_case(0, Some(2));
    psk_table_case(3, None);
    psk_table_case(9, Some(1));
    kani::cover!(true, "C12 psk table harness reached");
}
