include!(concat!(env!("OUT_DIR"), "/seed.rs"));
