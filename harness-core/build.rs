// Emits src-independent seed constant from VERIF_SEED (default 0) so that the toy "free"
// interpretations differ between seeds. Never affects soundness (see toy.rs).
use std::{env, fs, path::Path};
fn main() {
    println!("cargo:rerun-if-env-changed=VERIF_SEED");
    let seed: u64 = env::var("VERIF_SEED").ok().and_then(|s| s.trim().parse().ok()).unwrap_or(0);
    let out = env::var("OUT_DIR").unwrap();
    fs::write(Path::new(&out).join("seed.rs"), format!("pub const SEED: u64 = {seed};\n")).unwrap();
}
