//! C19 part (a): the real default-resolver ChaChaPoly wrapper, symbolic nonce and a symbolic single-bit flip of
//! the tag: `decrypt` returns Err and `out` holds the ciphertext copy it held before verification (the keystream
//! was never applied), not the plaintext.
use snow::params::CipherChoice;
use snow::resolvers::{CryptoResolver, DefaultResolver};

pub fn no_barrier<T: ?Sized>(_: &T) {}

const KEY: [u8; 32] = [0x11; 32];

#[kani::proof]
#[kani::unwind(70)]
#[kani::stub(zeroize::barrier::optimization_barrier, no_barrier)]
pub fn c19_t_real_chachapoly_reject_leaves_ciphertext() {
    let n: u64 = kani::any();
    let mut c = DefaultResolver.resolve_cipher(&CipherChoice::ChaChaPoly).unwrap();
    c.set(&KEY);
    // a ciphertext whose tag is wrong: the body is arbitrary, the tag is all zeros except a symbolic byte; the
    // solver is free to find the genuine tag, hence the assumption on the result below
    let body: [u8; 1] = kani::any();
    let tagbyte: u8 = kani::any();
    let mut ct = [0u8; 17];
    ct[0] = body[0];
    ct[1] = tagbyte;
    let mut out = [0xEEu8; 4];
    let r = c.decrypt(n, &[], &ct, &mut out[..1]);
    kani::cover!(r.is_err(), "C19 real ChaChaPoly rejection reachable");
    if r.is_err() {
        assert!(out[0] == body[0], "C19: after a rejected decrypt the output holds something other than the ciphertext copy");
        assert!(out[1] == 0xEE && out[2] == 0xEE && out[3] == 0xEE, "C19: bytes beyond the message were written");
    }
}

/// Same for the real AES-256-GCM wrapper (soft AES + soft POLYVAL).
#[kani::proof]
#[kani::unwind(70)]
#[kani::stub(zeroize::barrier::optimization_barrier, no_barrier)]
pub fn c19_t_real_aesgcm_reject_leaves_ciphertext() {
    let n: u64 = kani::any();
    let mut c = DefaultResolver.resolve_cipher(&CipherChoice::AESGCM).unwrap();
    c.set(&KEY);
    let body: [u8; 1] = kani::any();
    let tagbyte: u8 = kani::any();
    let mut ct = [0u8; 17];
    ct[0] = body[0];
    ct[1] = tagbyte;
    let mut out = [0xEEu8; 4];
    let r = c.decrypt(n, &[], &ct, &mut out[..1]);
    kani::cover!(r.is_err(), "C19 real AESGCM rejection reachable");
    if r.is_err() {
        assert!(out[0] == body[0], "C19: after a rejected AESGCM decrypt the output holds something other than the ciphertext copy");
        assert!(out[1] == 0xEE && out[2] == 0xEE && out[3] == 0xEE, "C19: bytes beyond the message were written");
    }
}
