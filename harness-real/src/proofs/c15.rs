//! C15 with a REAL built-in cipher: `rekey()` on snow's `CipherChaChaPoly` object (whatever method
//! body the backend provides - the trait default or an override) installs REKEY(k) = first 32 bytes of
//! ENCRYPT(k, 2^64-1, "", 0^32) computed here by an independent call of the upstream AEAD with the specification's nonce
//! encoding. The key cannot be read back, so it is observed through the next encryption (symbolic plaintext byte) against the upstream AEAD keyed with the reference REKEY(k). One fixed 32-byte key.
use chacha20poly1305::aead::{AeadInPlace, KeyInit};
use chacha20poly1305::ChaCha20Poly1305;
use snow::params::CipherChoice;
use snow::resolvers::{CryptoResolver, DefaultResolver};

pub fn no_barrier<T: ?Sized>(_: &T) {}

const KEY: [u8; 32] = [
    0x40, 0x41, 0x42, 0x43, 0x44, 0x45, 0x46, 0x47, 0x48, 0x49, 0x4a, 0x4b, 0x4c, 0x4d, 0x4e, 0x4f, 0x50, 0x51, 0x52, 0x53, 0x54,
    0x55, 0x56, 0x57, 0x58, 0x59, 0x5a, 0x5b, 0x5c, 0x5d, 0x5e, 0x5f,
];

#[kani::proof]
#[kani::unwind(70)]
#[kani::stub(zeroize::barrier::optimization_barrier, no_barrier)]
pub fn c15_t_real_chachapoly_rekey_is_spec_rekey() {
    let mut c = DefaultResolver.resolve_cipher(&CipherChoice::ChaChaPoly).unwrap();
    c.set(&KEY);
    c.rekey();
    // ChaChaPoly nonce = 4 zero bytes || little-endian 2^64-1
    let mut max = [0xffu8; 12];
    max[..4].copy_from_slice(&[0u8; 4]);
    let mut k2 = [0u8; 32];
    let _ = ChaCha20Poly1305::new(&KEY.into()).encrypt_in_place_detached(&max.into(), &[], &mut k2).unwrap();
    let p: u8 = kani::any();
    let mut out = [0u8; 17];
    let len = c.encrypt(5, &[], &[p], &mut out);
    let mut nonce = [0u8; 12];
    nonce[4] = 5;
    let mut body = [p];
    let _ = ChaCha20Poly1305::new(&k2.into()).encrypt_in_place_detached(&nonce.into(), &[], &mut body).unwrap();
    kani::cover!(true, "C15 real ChaChaPoly rekey reached");
    // body only: it pins all 256 key bits through the ChaCha20 block function; the Poly1305 tag adds nothing about the key
    assert!(len == 17 && out[0] == body[0], "C15: message after rekey() on the real ChaChaPoly cipher is not encrypted under REKEY(k)");
}

// The same harness for `CipherAesGcm` (two more AES-256 key schedules + GHASH keys next to snow's own two) did not finish
// symbolic execution within the 30 min cap / 28 GB: AES-GCM's rekey() is NOT decided here (DESIGN.md section 8, wave 7).
