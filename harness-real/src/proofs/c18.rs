//! C18 part (b): the real `CipherChaChaPoly` / `CipherXChaChaPoly` / `CipherAesGcm` wrappers of snow's default
//! resolver, for a SYMBOLIC 64-bit nonce: output == the upstream AEAD invoked independently with the Noise nonce
//! encoding written from the specification (ChaChaPoly: 4 zero bytes || little-endian n; AESGCM: 4 zero bytes ||
//! big-endian n; XChaChaPoly (snow extension): 16 zero bytes || little-endian n), and decrypt inverts encrypt.
use aes_gcm::Aes256Gcm;
use chacha20poly1305::aead::{AeadInPlace, KeyInit};
use chacha20poly1305::{ChaCha20Poly1305, XChaCha20Poly1305};
use snow::params::CipherChoice;
use snow::resolvers::{CryptoResolver, DefaultResolver};

pub fn no_barrier<T: ?Sized>(_: &T) {}

const KEY: [u8; 32] = [
    0x80, 0x81, 0x82, 0x83, 0x84, 0x85, 0x86, 0x87, 0x88, 0x89, 0x8a, 0x8b, 0x8c, 0x8d, 0x8e, 0x8f, 0x90, 0x91, 0x92, 0x93, 0x94,
    0x95, 0x96, 0x97, 0x98, 0x99, 0x9a, 0x9b, 0x9c, 0x9d, 0x9e, 0x9f,
];

#[kani::proof]
#[kani::unwind(70)]
#[kani::stub(zeroize::barrier::optimization_barrier, no_barrier)]
pub fn c18_t_real_chachapoly_nonce_layout() {
    let n: u64 = kani::any();
    let mut c = DefaultResolver.resolve_cipher(&CipherChoice::ChaChaPoly).unwrap();
    c.set(&KEY);
    let pt = [0x42u8];
    let mut out = [0u8; 17];
    let len = c.encrypt(n, &[], &pt, &mut out);
    let mut nonce = [0u8; 12];
    nonce[4..].copy_from_slice(&n.to_le_bytes());
    let mut body = pt;
    let tag = ChaCha20Poly1305::new(&KEY.into()).encrypt_in_place_detached(&nonce.into(), &[], &mut body).unwrap();
    kani::cover!(true, "C18 real ChaChaPoly reached");
    assert!(len == 17, "C18: ChaChaPoly ciphertext length");
    // The body byte is ChaCha20 keystream block 1 under the full 96-bit nonce, so it pins the nonce encoding. The TAG
    // comparison for a symbolic nonce is a miter of two Poly1305 multiplier chains with a symbolic key and does not
    // finish (> 60 min in the SAT solver, measured): the tag is compared for a fixed large nonce in the harness below.
    assert!(out[0] == body[0], "C18: ChaChaPoly body differs from RFC 8439 with the Noise nonce encoding (LE in bytes 4..12)");
    let _ = tag;
}

/// Tag and body for one fixed nonce with all eight bytes distinct and non-zero, symbolic plaintext byte and
/// associated-data byte (Poly1305 key concrete, message symbolic).
#[kani::proof]
#[kani::unwind(70)]
#[kani::stub(zeroize::barrier::optimization_barrier, no_barrier)]
pub fn c18_t_real_chachapoly_tag_fixed_nonce() {
    let n: u64 = 0x0807_0605_0403_0201;
    let mut c = DefaultResolver.resolve_cipher(&CipherChoice::ChaChaPoly).unwrap();
    c.set(&KEY);
    let pt: [u8; 1] = kani::any();
    let ad: [u8; 1] = kani::any();
    let mut out = [0u8; 17];
    let len = c.encrypt(n, &ad, &pt, &mut out);
    let mut nonce = [0u8; 12];
    nonce[4..].copy_from_slice(&n.to_le_bytes());
    let mut body = pt;
    let tag = ChaCha20Poly1305::new(&KEY.into()).encrypt_in_place_detached(&nonce.into(), &ad, &mut body).unwrap();
    kani::cover!(true, "C18 real ChaChaPoly tag harness reached");
    assert!(len == 17 && out[0] == body[0], "C18: ChaChaPoly body differs from RFC 8439");
    let mut i = 0;
    while i < 16 {
        assert!(out[1 + i] == tag[i], "C18: ChaChaPoly tag differs from RFC 8439 (associated data / plaintext routing)");
        i += 1;
    }
}

#[kani::proof]
#[kani::unwind(70)]
#[kani::stub(zeroize::barrier::optimization_barrier, no_barrier)]
pub fn c18_t_real_xchachapoly_nonce_layout() {
    let n: u64 = kani::any();
    let mut c = DefaultResolver.resolve_cipher(&CipherChoice::XChaChaPoly).unwrap();
    c.set(&KEY);
    let pt = [0x42u8];
    let mut out = [0u8; 17];
    let len = c.encrypt(n, &[], &pt, &mut out);
    let mut nonce = [0u8; 24];
    nonce[16..].copy_from_slice(&n.to_le_bytes());
    let mut body = pt;
    let tag = XChaCha20Poly1305::new(&KEY.into()).encrypt_in_place_detached(&nonce.into(), &[], &mut body).unwrap();
    kani::cover!(true, "C18 real XChaChaPoly reached");
    // body only, for the reason given above
    assert!(len == 17 && out[0] == body[0], "C18: XChaChaPoly body differs (nonce: 16 zero bytes || LE)");
    let _ = tag;
}

#[kani::proof]
#[kani::unwind(70)]
#[kani::stub(zeroize::barrier::optimization_barrier, no_barrier)]
pub fn c18_t_real_chachapoly_roundtrip() {
    // fixed nonce (a symbolic one makes the Poly1305 key symbolic: the tag check does not finish), symbolic plaintext
    let n: u64 = 0xF1E2_D3C4_B5A6_9788;
    let mut c = DefaultResolver.resolve_cipher(&CipherChoice::ChaChaPoly).unwrap();
    c.set(&KEY);
    let pt: [u8; 1] = kani::any();
    let ad = [7u8];
    let mut ct = [0u8; 17];
    let len = c.encrypt(n, &ad, &pt, &mut ct);
    let mut back = [0u8; 1];
    let r = c.decrypt(n, &ad, &ct[..len], &mut back);
    kani::cover!(true, "C18 real ChaChaPoly roundtrip reached");
    assert!(r == Ok(1) && back == pt, "C18: ChaChaPoly decrypt does not invert encrypt");
}

#[kani::proof]
#[kani::unwind(70)]
#[kani::stub(zeroize::barrier::optimization_barrier, no_barrier)]
pub fn c18_t_real_aesgcm_nonce_layout() {
    let n: u64 = kani::any();
    let mut c = DefaultResolver.resolve_cipher(&CipherChoice::AESGCM).unwrap();
    c.set(&KEY);
    let pt = [0x42u8];
    let mut out = [0u8; 17];
    let len = c.encrypt(n, &[], &pt, &mut out);
    let mut nonce = [0u8; 12];
    nonce[4..].copy_from_slice(&n.to_be_bytes());
    let mut body = pt;
    let tag = Aes256Gcm::new(&KEY.into()).encrypt_in_place_detached(&nonce.into(), &[], &mut body).unwrap();
    kani::cover!(true, "C18 real AESGCM reached");
    assert!(len == 17 && out[0] == body[0], "C18: AESGCM body differs (nonce: 4 zero bytes || BE)");
    let mut i = 0;
    while i < 16 {
        assert!(out[1 + i] == tag[i], "C18: AESGCM tag differs");
        i += 1;
    }
}
