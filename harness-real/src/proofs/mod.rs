pub mod c15;
pub mod c18;
pub mod c19;
pub mod registry;
