pub mod c18;
pub mod c19;
pub mod registry;
