//! Harnesses over snow's REAL default-resolver AEAD wrappers (RustCrypto chacha20poly1305 / aes-gcm with the
//! portable "soft" backends forced by cfg flags: the SIMD/AES-NI backends use cpuid inline assembly, which Kani
//! cannot encode). One question per harness (<= 2 AEAD computations): more does not finish.
#![allow(clippy::all)]
#[cfg(kani)]
mod proofs;

#[cfg(all(kani, test))]
mod replay {
    #[test]
    fn replay_from_file() {
        let path = std::env::var("VERIF_REPLAY_FILE").expect("VERIF_REPLAY_FILE");
        let txt = std::fs::read_to_string(path).unwrap();
        let mut lines = txt.lines();
        let name = lines.next().unwrap().trim().to_string();
        let vals: Vec<Vec<u8>> = lines.map(|l| l.split_whitespace().map(|x| x.parse::<u8>().unwrap()).collect()).collect();
        let f = crate::proofs::registry::lookup(&name).expect("unknown harness");
        let r = std::panic::catch_unwind(std::panic::AssertUnwindSafe(|| kani::concrete_playback_run(vals, f)));
        match r {
            Ok(()) => println!("REPLAY-RESULT: passed ({name})"),
            Err(e) => {
                let msg = e.downcast_ref::<String>().cloned().or_else(|| e.downcast_ref::<&str>().map(|s| s.to_string())).unwrap_or_default();
                if msg.contains("Not enough det vals") || msg.contains("should always hold") {
                    println!("REPLAY-RESULT: diverged ({name}): {msg}");
                } else {
                    println!("REPLAY-RESULT: reproduced ({name}): {msg}");
                }
            },
        }
    }
}
