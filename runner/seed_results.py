#!/usr/bin/env python3
"""Summarise the seeded runs (.cache/seed_<name>_<Cxx>.log written by runner/try_seed.sh) into seeded/RESULTS.md and
fill `detected_by` in each seeded/<name>/meta.json."""
import glob, json, os, re
V = os.path.dirname(os.path.dirname(os.path.abspath(__file__)))
rows = []
for d in sorted(glob.glob(os.path.join(V, "seeded", "*", "meta.json"))):
    name = os.path.basename(os.path.dirname(d))
    meta = json.load(open(d))
    det = []
    for log in sorted(glob.glob(os.path.join(V, ".cache", "seed_%s_C*.log" % name))):
        cid = re.search(r"_(C\d\d)\.log$", log).group(1)
        txt = open(log).read()
        failed = re.findall(r"^\s+(c\d\d_[qt]_\S+)\s+failed", txt, re.M)
        viol = re.findall(r"^VIOLATION property=(C\d\d) replay=\S*/(?:C\d\d_)?(\S+)\.json", txt, re.M)
        tier = "thorough" if "thorough" in txt.split("\n")[0] else "quick"
        if viol:
            det.append(dict(check=cid, tier=tier, verdict="VIOLATION (reproduced natively)", failing_harnesses=sorted(set(failed)), replayed=sorted(set(h for _, h in viol))))
        elif failed:
            det.append(dict(check=cid, tier=tier, verdict="solver counterexample, not confirmed natively", failing_harnesses=sorted(set(failed))))
        else:
            held = re.search(r"held on (\d+) harnesses", txt)
            det.append(dict(check=cid, tier=tier, verdict="MISSED (check passed)" if held else "inconclusive", failing_harnesses=[]))
    meta["detected_by"] = det
    json.dump(meta, open(d, "w"), indent=1)
    rows.append((name, meta))
with open(os.path.join(V, "seeded", "RESULTS.md"), "w") as f:
    f.write("# Seeded breaking changes vs. checks\n\nEach change was written by an independent sub-agent from the property text alone, confirmed in a scratch worktree\n(existing 62 tests pass with it; its demo fails with it and passes without it), applied to /repo transiently by\n`runner/try_seed.sh`, and undone. `VIOLATION` = the check exited 1 with a natively reproduced counterexample.\n\n| seeded change | breaks | needs to manifest | check(s) run | verdict | failing harnesses |\n|---|---|---|---|---|---|\n")
    for name, m in rows:
        for dd in m["detected_by"] or [dict(check="-", tier="-", verdict="not run yet", failing_harnesses=[])]:
            f.write("| %s | %s | %s | %s (%s) | %s | %s |\n" % (name, m["breaks_property"], m["needs_to_manifest"].replace("|", "/"), dd["check"], dd["tier"], dd["verdict"], ", ".join(dd["failing_harnesses"][:6]) + (" ..." if len(dd["failing_harnesses"]) > 6 else "")))
print(len(rows), "seeds")
