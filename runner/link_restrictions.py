#!/usr/bin/env python3
"""Replicates kani-driver's linking of vtable restrictions (`-Z restrict-vtable`):
restrictions.json {call_sites, possible_methods}  ->  CBMC --function-pointer-restrictions-file format
{"<function_name>.<label>": [possible targets]}."""
import json, sys

def link(paths):
    combined = {}
    sites = []
    for p in paths:
        d = json.load(open(p))
        for e in d.get("possible_methods", []):
            k = (e["trait_method"]["trait_name"], e["trait_method"]["vtable_idx"])
            combined.setdefault(k, [])
            for t in e["possibilities"]:
                if t not in combined[k]:
                    combined[k].append(t)
        sites += d.get("call_sites", [])
    out = {}
    for s in sites:
        k = (s["trait_method"]["trait_name"], s["trait_method"]["vtable_idx"])
        out["%s.%s" % (s["function_name"], s["label"])] = combined.get(k, [])
    return out

if __name__ == "__main__":
    json.dump(link(sys.argv[2:]), open(sys.argv[1], "w"))
