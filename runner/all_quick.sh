#!/bin/bash
# run every claimed check's quick command once, sequentially (what `vp check` does), and summarise
cd "$(dirname "$0")/.."; mkdir -p .cache
for c in $(python3 -c "import json;print(' '.join(x['property_id'] for x in json.load(open('MANIFEST.json'))['checks']))"); do
  s=$(date +%s); ./check $c --tier ${1:-quick} > .cache/all_$c.log 2>&1; rc=$?; e=$(date +%s)
  echo "$c rc=$rc $((e-s))s $(tail -1 .cache/all_$c.log | cut -c1-150)"
done
