#!/bin/bash
# Post-codegen pipeline of kani-driver 0.68 (captured with `cargo kani --verbose`), replicated so that the
# per-harness steps can run 16-way parallel and cbmc can be run without Kani's slow JSON pipe.
# usage: gotopipe.sh <base path without .symtab.out> <mangled harness fn> <restrict 0|1>
set -e
B=$1; FN=$2; RESTRICT=$3
KANI_HOME=${KANI_HOME:-/root/.kani/kani-0.68.0}
BIN=$KANI_HOME/bin
$BIN/goto-cc "$B.symtab.out" $KANI_HOME/library/kani/kani_lib.c -o "$B.out"
$BIN/goto-cc "$B.out" --function "$FN" -o "$B.out"
if [ "$RESTRICT" = "1" ]; then
  python3 "$(dirname "$0")/link_restrictions.py" "$B.linked-restrictions.json" "$B.restrictions.json"
  $BIN/goto-instrument --function-pointer-restrictions-file "$B.linked-restrictions.json" "$B.out" "$B.out" >/dev/null
fi
$BIN/goto-instrument --add-library --no-malloc-may-fail "$B.out" "$B.out" >/dev/null
$BIN/goto-instrument --generate-function-body-options assert-false-assume-false --generate-function-body '.*' --drop-unused-functions "$B.out" "$B.out" >/dev/null 2>&1
$BIN/goto-instrument --ensure-one-backedge-per-target "$B.out" "$B.out" >/dev/null
