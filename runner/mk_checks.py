#!/usr/bin/env python3
"""Writes runner/checks.json: per property the claim text, trusted base, stubs, bounds (used by MANIFEST and evidence)."""
import json, os
V = os.path.dirname(os.path.dirname(os.path.abspath(__file__)))
TOY = "free toy primitives (xor/rotate hash, KDF, AEAD, DH) through snow's public Hash/Cipher/Dh/Random traits"
ORACLE = "oracle / length-only cipher and hash stubs (record arguments, preset verdict, O(1) in data, enforce the built-in backends' buffer contract)"
IDEAL = "ideal AEAD functionality (accepts exactly the logged (key, nonce, AD, ciphertext) tuples)"
HOOK = "session placed in the state under test by the verif-hooks literal constructors (no source line of snow changed)"
RMV = "reference model = independent transcription of Noise rev 34, validated natively against 944 cacophony + 408 snow vectors at setup"
FN_HS = ["HandshakeState::write_message/_write_message", "HandshakeState::read_message/_read_message", "SymmetricState::{mix_hash,mix_key,mix_key_and_hash,encrypt_and_mix_hash,decrypt_and_mix_hash,split,checkpoint,restore}",
         "CipherState::{set,encrypt_ad,decrypt_ad,restore}", "HandshakeTokens::try_from", "HandshakeState::dh"]
FN_TR = ["TransportState::{write_message,read_message,rekey_*,set_receiving_nonce,sending_nonce,receiving_nonce}",
         "StatelessTransportState::{write_message,read_message,rekey_*}", "CipherState::{encrypt,decrypt,encrypt_ad,decrypt_ad,rekey,rekey_manually}",
         "StatelessCipherState::{encrypt,decrypt}", "validate_nonce", "Cipher::rekey (default method)"]
C = {}
def add(cid, text, note, stubs, bounds, outside, fns, assumptions, **kw):
    C[cid] = dict(crate="core", level_text=text, level_note=note, stubs=stubs, bounds=bounds, outside=outside,
                  functions_encoded=fns, assumptions=assumptions, **kw)

add("C01",
    "Bounded symbolic equivalence: for each covered (pattern, psk set, message index, role) one solver query shows that the real write_message / read_message step produces the bytes, length, handshake hash, payload-encrypted flag, RNG draws, Split() keys and the FULL post-state of the reference model's step, for all key / ephemeral / PSK / prologue / payload bytes, from every reference-model-reachable pre-state. Because the whole post-state is compared, step results compose by induction into whole sessions.",
    TOY + "; equational claim (holds under any interpretation of the primitives, so a toy interpretation cannot raise a false alarm); " + HOOK + "; " + RMV + "; what the real primitives compute is C18's subject.",
    [TOY, "stub RNG handing out symbolic ephemerals"],
    {"quick": "patterns NN, XX, IK, NNpsk0/psk2, X1N, KK-class via step harnesses; payload 0..2 bytes (concrete per harness), prologue 2 symbolic bytes, toy shapes HL 8, (PL,DL) in {(4,4),(5,3)}; unwind 34",
     "thorough": "all 38 patterns x every message x both directions (write and read step), psk variants, HL 8/32, unwind 34..66"},
    ["payloads > 2 bytes (copy lengths are covered with symbolic lengths up to 66000 by C14)", "hfs/Kyber builds", "third-party hash/cipher/curve arithmetic (C18)", "P-256 / XChaChaPoly names select a resolver entry only"],
    FN_HS + ["HandshakeState::{get_handshake_hash,was_write_payload_encrypted,is_handshake_finished}", "HandshakeState::new (init harness)"],
    ["primitives abstracted by toy functions behind snow's public traits", "reference model is the specification oracle (validated against pinned vectors)", "unwinding assertions on: loop bounds are checked, not assumed"])
add("C02",
    "Two REAL snow endpoints exchange one unmodified handshake message from the specification-reachable state (fresh ephemeral from the RNG stub, all keys symbolic): both calls succeed, payload intact, equal handshake hashes, both finish exactly at the last message; then both convert (stateful or stateless) and exchange transport messages in both directions (one-way: responder write refused). Together with C01's induction this covers whole honest sessions.",
    TOY + "; " + HOOK + "; Builder::generate_keypair checked over a stub resolver (public == derive(private)).",
    [TOY], {"quick": "NN, NK, XX, N, IK (5,3 shape), NNpsk0; payload 1-2 bytes; 2 transport messages per direction", "thorough": "+ X, XXpsk3, X1X1, KK, XX last message (both transport kinds)"},
    ["distinctness of two generated key pairs (a statement about the OS RNG)", "hfs/Kyber", "payload lengths beyond 2 bytes (C14)"], FN_HS + FN_TR + ["HandshakeState::into_transport_mode / into_stateless_transport_mode", "Builder::generate_keypair"],
    ["toy primitives", "step composition relies on C01's full post-state equality"])
add("C03",
    "(1) a fully symbolic message of symbolic length is read by the real read_message in the specification-reachable state: accept/reject, payload and full post-state equal the reference model's ReadMessage on the same bytes; (2) with the ideal AEAD and two real endpoints, any alteration from the first encrypted field on (symbolic byte position and value, symbolic truncation, extension) is rejected by the read itself, nothing is written to the payload buffer, the handshake does not advance.",
    TOY + " for (1), " + IDEAL + " for (2); assumed, not decided: that alteration of a *cleartext* field is caught by the next authenticated field (Noise's design argument needs a collision-resistant hash; a toy hash is not one).",
    [TOY, IDEAL], {"quick": "NN r0/r1, XX r1 (arbitrary bytes, length <= fixed+2); NN, XX, N altered encrypted part", "thorough": "+ XX r2, IK r0, NNpsk0 r0, N r0"},
    ["consequences of cleartext-field alterations beyond the message itself (cryptographic assumption)", "substitution by messages of parallel sessions is subsumed by 'arbitrary bytes' in (1)"], FN_HS,
    ["ideal AEAD: accepted iff the exact tuple was encrypted", "cleartext alterations: Noise design argument assumed"])
add("C04",
    "One delivery of a FULLY SYMBOLIC byte string to a receiver placed at an arbitrary receiving nonce, after the peer wrote two messages under arbitrary nonces, the receiver itself wrote one (reflection) and a stranger session with other keys wrote one: with the ideal AEAD the read is Ok iff the bytes are the peer's message for this direction whose nonce equals the receiving (or supplied) nonce, and then returns exactly its payload. Stateful and stateless receivers, both roles.",
    IDEAL + "; " + HOOK + "; which Split() output feeds which direction is C01's last-message step.",
    [IDEAL], {"quick": "payload <= 4 bytes, delivered string <= 24 bytes, buffer <= 8; stateful responder + stateless initiator receivers", "thorough": "all four receiver kinds"},
    ["unforgeability of the real AEADs (cryptographic assumption; C18 checks their wiring)", "ring backend"], FN_TR,
    ["keys of the two directions and of the stranger session are distinct (assumed)"])
add("C05",
    "Same one-step harness as C04 for the stateful receiver (accept iff genuine and number == receiving nonce and buffer fits; nonce +1 on accept, unchanged otherwise; sending nonce untouched) - an induction step from an arbitrary state, covering delivery schedules of any length - plus a bounded 3-delivery schedule with symbolic choice among messages 0,1,2 and garbage and optional explicit receiving-nonce settings.",
    IDEAL + "; " + HOOK, [IDEAL], {"quick": "one delivery from arbitrary (n_recv, n_send); schedule of 3 deliveries over 3 messages"}, ["longer explicit schedules follow by induction from the one-step result"], FN_TR,
    ["ideal AEAD", "direction keys distinct"])
add("C06",
    "One handshake write preceded by failing attempts (65535-byte payload with a large buffer; undersized buffer), every Cipher::encrypt recorded by a ghost-logging cipher (key bytes, nonce, AD, plaintext length and prefix): no two log entries share key and nonce with different inputs. All cryptographic inputs concrete, so equal key bytes can only come from equal derivations. That ephemerals are drawn from the resolver RNG during the write is asserted in every C01 write step; transport nonce stepping is C09.",
    "ghost-logging cipher + hybrid hash (O(1) beyond 64 bytes) through snow's public traits; " + HOOK,
    ["GCipher (logging, moves no data)", "HHash (toy hash up to 64 bytes, length+prefix beyond)"],
    {"quick": "K1K1 w2, XX w2, X1N w2, NNpsk0 w0 with oversize and/or undersized-buffer attempts", "thorough": "+ IK w0, XX w1, KK w1"},
    ["cross-message reuse follows from C01 (post-state equals the specification's, whose nonces count up) and C09", "failing reads do not encrypt"], FN_HS,
    ["toy KDF with concrete inputs: distinct derivations give distinct keys in the runs explored"])
add("C07",
    "(i) concrete-path failures (undersized output buffer cut at chosen field boundaries, out-of-turn call, undersized payload buffer) followed by the valid call, which must satisfy every C01 step assertion (bytes, lengths, hash, full post-state as if the failed call never happened); (ii) a fully symbolic incoming message: whenever the read fails, turn, progress, h, ck, key flag, cipher key and cipher nonce are unchanged; (iii) authentication failure at the first/second decryption, then the genuine message: accepted, same nonces presented to the cipher.",
    TOY + " for (i)/(ii), " + ORACLE + " for (iii); " + HOOK,
    [TOY, ORACLE], {"quick": "XX w1/w2/r1/r2, NN w0, X1N w2/r2", "thorough": "+ IK, NNpsk0, K1K1"},
    ["failure causes not listed (DH failure of a custom Dh)", "sequences of several scattered failures follow by induction from 'state unchanged'"], FN_HS,
    ["retry harnesses use concrete failing paths (a symbolic failing path would make the position symbolic for the retried call)"])
add("C08",
    "Two reference-model parties that differ in exactly one context item (prologue byte, name byte, PSK byte, either pre-shared static key; symbolic non-zero difference) run to the first message with an authenticated field after the item was mixed; the real snow receiver in the specification-reachable state must reject it. Where each item enters (h, ck, k) is pinned independently by C01.",
    TOY + " (xor-linear: a difference propagates independently of the other inputs, which are therefore concrete); " + HOOK + "; collision resistance of the real hash is assumed for the step from 'difference in h/ck' to 'rejection' with real primitives.",
    [TOY], {"quick": "NN prologue/name, NNpsk0 psk, NK rs, KN rs, N prologue", "thorough": "+ XXpsk3, XX, IK, KK, NNpsk2"},
    ["random combinations of several differing items", "real-hash collision resistance (assumption)"], FN_HS, ["toy difference propagation stands in for collision resistance"])
add("C09",
    "One transport operation from an arbitrary state: both 64-bit nonces, role, one-way class, sizes and the cipher's verdict symbolic. Counters move by exactly one on success and never otherwise; the reserved nonce never reaches the cipher from read/write paths and yields Exhausted with no output; explicit nonce setting touches only its counter; rekey is the only user of 2^64-1. Induction step for histories of any length; the start value (0,0) is asserted at C01's last-message steps.",
    ORACLE + "; " + HOOK, [ORACLE], {"quick": "payload/message/buffer 0..=64 bytes; stateful + stateless; both roles; one-way and interactive"}, ["real backends' own nonce encoding (C18)"], FN_TR, ["oracle cipher"])
add("C10",
    "Panic-freedom within the explored harnesses: Kani's automatic checks (panic, unwrap, slice/array bounds, arithmetic overflow, unreachable, unwinding) are on in every harness of every property, and the dedicated harnesses here drive hostile sizes: builder keys/prologue of any length 0..=200 on either role; (shared with C14) handshake and transport reads/writes with payload, message and buffer lengths symbolic in 0..=66000 over stubs that enforce the built-in backends' buffer contract.",
    ORACLE + " + contract-faithful DH stub (set() rejects over-long keys like the built-in Dh25519); " + HOOK + "; parser totality is part of C13's harnesses (every parse result is inspected; a panic fails the harness).",
    [ORACLE, "KDh"], {"quick": "builder key lengths 0..=200 (KK, both roles); hostile-size handshake/transport harnesses of C14 are re-run under C10's id in the thorough tier"},
    ["allocation failure / abort / stack overflow", "inputs longer than the stated lengths", "ring backend", "hfs", "non-ASCII name strings (string machinery is too expensive to execute symbolically; see C13)"],
    ["Builder::{local_private_key,remote_public_key,prologue,fixed_ephemeral_key_for_testing_only,build_initiator,build_responder}", "HandshakeState::new"] + FN_HS,
    ["a panic inside a real backend is represented by the stub's contract assertion"])
add("C11",
    "One API call chosen symbolically among valid/invalid writes, reads of authentic/rejected/oversize messages and both conversions, from EVERY reachable (pattern, position, role) state: result variant and turn/finished/role indicators equal the reference automaton's; rejected calls leave them unchanged; a missing PSK is reported at the message that needs it. Induction step for call sequences of any length. One-way transport rules are in C09.",
    ORACLE + "; " + HOOK, [ORACLE], {"quick": "N, NN, XX every position and role; NNpsk0 / XXpsk3 missing-PSK states (21 harnesses)", "thorough": "all 38 patterns x every position x both roles (283 harnesses)"},
    ["guard order (oversize message => Input before the turn check) is taken as documented behaviour"], FN_HS + ["HandshakeState::into_transport_mode / into_stateless_transport_mode", "HandshakeState::{is_my_turn,is_handshake_finished,is_initiator}"], ["oracle cipher"])
add("C12",
    "Real Builder::build_* over a stub resolver: for a pattern without modifiers, role, supplied keys and the availability of each primitive are symbolic (the whole finite space in one query); Ok iff the keys the reference model's token table requires are supplied and all primitives resolve, and every reported error has its cause present. Modifier lists (pskN for N up to 9, fallback, pairs) are enumerated concretely per pattern (symbolic modifier values index a heap table symbolically and do not finish): Ok iff implemented and N <= #messages.",
    "stub resolver over O(1) stubs; predicate derived from the reference model's pattern table, not from snow's needs_local_static_key / need_known_remote_pubkey.",
    ["StubResolver", "KDh", "LHash", ORACLE], {"quick": "NN, XX, IK, K, X1K1, KX1 with 2-3 modifier lists each", "thorough": "all 38 patterns x 14 modifier lists"},
    ["'never fails later for missing key material' is asserted by C01/C02 (no MissingKeyMaterial in honest steps); missing PSK at the message that needs it: C11"],
    ["Builder::{with_resolver,local_private_key,remote_public_key,psk,build,build_initiator,build_responder}", "HandshakeState::new", "HandshakeTokens::try_from", "apply_psk_modifier", "HandshakePattern::{needs_local_static_key,need_known_remote_pubkey}"],
    ["stub resolver"], exhaustive=False)
add("C13",
    "Decided: (a) the public per-field FromStr impls (BaseChoice, DHChoice, CipherChoice, HashChoice, HandshakePattern, HandshakeModifier) on SYMBOLIC ASCII strings of symbolic length; (b) HandshakeModifierList::from_str, HandshakeChoice::from_str and NoiseParams::from_str on templates with CONCRETE separator positions ('+', '_') and SYMBOLIC bytes elsewhere (1-4 modifiers, empty first/middle/last segment, fallback; whole names with symbolic psk digits, symbolic bytes in the base / dh / cipher / hash fields, too many / too few / empty fields): Ok iff a byte-level reference recogniser of the name grammar accepts (five fields, supported pattern, non-duplicate '+'-separated known modifiers, supported primitive names), pattern / modifiers (values and order) / dh / cipher / hash equal to the named ones, `name` equal to the input byte for byte, rejection is Error::Pattern. NOT decided: symbolic separator positions (the templates enumerate the structures), a symbolic byte inside the pattern name of a longer string (out of memory; the pattern parser alone is decided on fully symbolic strings).",
    "reference recogniser written from the specification's grammar; strings built with from_utf8_unchecked from bytes assumed < 0x80; in template harnesses core::slice::memchr::memchr is replaced by a separator-mask function that reads the separator positions from the const template - contract-equivalent under the harness's assumption that hole bytes are not separators (it asserts: needle is a separator of the template, haystack is a suffix of the template / of the handshake field); the real memchr runs in every native replay. The reference verdict for whole names cuts the fields at the template's separator positions.",
    ["separator-mask function for core::slice::memchr::memchr (template harnesses)", "naive-loop memchr (fully symbolic 5-byte list / field harnesses, thorough)"], {"quick": "fields up to 7-12 bytes, pattern names up to 4 bytes, modifier token up to 8 bytes, 6 modifier templates, modifier lists of 2-3 tokens + free 4-byte tokens + empty-segment shapes + fallback, handshake fields XX/X1X1 with 2-3 modifiers, 8 whole-name templates up to 41 bytes", "thorough": "+ pattern names up to 5 bytes, 4-token lists, empty last segment, fully symbolic 5-byte lists/fields"},
    ["non-ASCII input", "symbolic separator positions (each template fixes them)", "a symbolic byte inside the pattern name of a list / whole-name template", "lists of more than 4 modifiers, names longer than 41 bytes"],
    ["<BaseChoice|DHChoice|CipherChoice|HashChoice|HandshakePattern|HandshakeModifier|HandshakeModifierList|HandshakeChoice|NoiseParams as FromStr>::from_str"], ["ASCII strings within the stated lengths", "hole bytes are not separators (separator structures are enumerated by the templates)"])
add("C14",
    "One real handshake write/read at message k, and one transport write/read of either kind, with payload, message and buffer lengths symbolic in 0..=66000: Ok(n) implies n == the reference model's predicted length, n <= 65535, n <= buffer; a message that does not fit the buffer or the limit fails with Input; reads longer than 65535 fail with Input, shorter than the fixed fields fail, Ok(n) implies n == length - overhead; well-sized authentic input is accepted; the cipher never receives a buffer smaller than its contract requires.",
    ORACLE + "; lengths predicted from the reference model's token table; " + HOOK, [ORACLE],
    {"quick": "NN w0/r0/w1, XX w1/r1/w2, IK w0/r0, both transport kinds; lengths 0..=66000", "thorough": "same set (all patterns' framing arithmetic is the same code; per-pattern lengths are also pinned by C01 for short payloads)"},
    ["snow refuses some writes that would fit (it reserves 16 bytes for unencrypted payloads too): C14 only requires failure when it would not fit, and success with 16 spare bytes"], FN_HS + FN_TR, ["length-only stubs"])
add("C15",
    "(a) snow's default Cipher::rekey over the toy AEAD installs REKEY(k) = first 32 bytes of ENCRYPT(k, 2^64-1, '', 0^32); (b) for both roles and both transport kinds each rekey call changes exactly the designated direction's key (automatic or manual) and no nonce; (c) with the ideal AEAD, after a symbolic sequence of three operations from {I.rekey_outgoing, R.rekey_incoming, manual keys on either side, rekey of the other direction} a message is delivered iff both ends hold the same key history for that direction; (c') the first message after rekey_outgoing is byte-identical to ENCRYPT(REKEY(k), n, '', p).",
    TOY + " / " + IDEAL + "; " + HOOK + "; none of the built-in ciphers overrides rekey, so the default method is what runs with real backends.",
    [TOY, IDEAL], {"quick": "interleavings of depth 3 + final send; arbitrary keys and nonces"}, ["REKEY(k) != k and distinct manual keys are assumptions of the ideal model", "deeper interleavings follow the same per-operation key bookkeeping"], FN_TR, ["ideal model assumptions listed"])
add("C16",
    "Stateless write twice (with an unrelated call in between) gives identical results and bytes; a message written under nonce n reads back under n to the original payload, in reverse order and repeatedly; stateless write(n, p) is byte-identical to the message a stateful sender of the same session produces at sending nonce n. All keys, nonces (< 2^64-1), payloads and the role symbolic.",
    TOY + "; " + HOOK + "; concurrent use from several threads is NOT decided (Kani does not model concurrency): the receivers take &self and snow forbids unsafe code, which is the argument for thread-safety, stated not checked.",
    [TOY], {"quick": "payload <= 3 bytes, arbitrary 64-bit nonces"}, ["thread interleavings (outside the technique)", "ring backend"], FN_TR, ["toy AEAD"])
add("C17",
    "At every explored (pattern, role, position) the real get_remote_static equals the peer's full public key exactly when the reference model's token table says the key has been conveyed (pre-shared or transmitted), None otherwise; after the real conversions to both transport types it is unchanged and complete. DH shape (public 5 bytes, shared secret 3 bytes) mimics P-256.",
    TOY + " with DH shapes (4,4) and (5,3); " + HOOK, [TOY], {"quick": "XX both roles (end, before s), NK start, NN end, IK after message 1", "thorough": "+ IK/KK/X/N responder end"}, ["real P-256 point encoding (native demo in replay/tests/defects.rs)"],
    ["HandshakeState::get_remote_static", "TransportState::{new,get_remote_static}", "StatelessTransportState::{new,get_remote_static}"] + FN_HS, ["toy DH"])
add("C18",
    "Part (a), decided: snow's default Hash::hmac and Hash::hkdf trait methods equal RFC 2104 HMAC and the Noise HKDF (1/2/3 outputs, untouched outputs stay untouched) for every key of length 0..=block and symbolic data, over a toy compression function with the real shapes (32/64, 64/128). Part (b), thorough tier, harness-real: snow's real CipherChaChaPoly / CipherXChaChaPoly / CipherAesGcm wrappers vs an independent call of the upstream AEAD with the Noise nonce encoding written from the specification - AES-GCM: body and tag for a fully SYMBOLIC 64-bit nonce; ChaChaPoly / XChaChaPoly: the body (ChaCha20 keystream block 1, which pins all 96 / 192 nonce bits) for a fully symbolic nonce, the tag for one fixed nonce with eight distinct bytes and symbolic plaintext / associated data (a symbolic nonce makes the Poly1305 key symbolic and the tag comparison a multiplier miter that does not finish in 60 min); ChaChaPoly decrypt inverts encrypt for a fixed nonce, symbolic plaintext. NOT claimed: that SHA-2/BLAKE2/ChaCha20/Poly1305/AES/GHASH/X25519/P-256 themselves match their standards (third-party code; 64-round compression functions and field multiplication over symbolic data do not finish) - those rest on the crates' own test vectors and on the repository's vector tests.",
    "toy compression function with real block/output shapes; reference HMAC/HKDF written from RFC 2104 and the Noise specification.",
    ["SHashDefaultKdf (toy hash, snow's default hmac/hkdf)"], {"quick": "hash 32 / block 64: hmac key 0..=64, data 0..=3; hkdf 2 and 3 outputs, input 0/4/32 bytes", "thorough": "+ 64/128 shape, 1 output; real AEAD wrappers: 1-byte plaintext, 0-1 bytes of associated data, nonce symbolic (64 bits) or fixed as stated; unwind 70"},
    ["standards conformance of third-party primitives", "DH key-pair distinctness", "ring backend (FFI)", "AD/plaintext longer than a few bytes through real AEADs"], ["Hash::hmac (default)", "Hash::hkdf (default)", "(thorough) resolvers::default::{CipherChaChaPoly,CipherXChaChaPoly,CipherAesGcm}::{encrypt,decrypt} over the RustCrypto soft backends"], ["toy compression function", "portable (soft) backends of the RustCrypto crates forced by cfg; zeroize's optimisation barrier stubbed"])
add("C19",
    "snow's own layers never touch the caller's payload buffer when authentication fails: handshake read with the rejection at the first or second decryption, stateful and stateless transport reads, symbolic message bytes and buffer sizes (exact and larger) - buffer byte-identical before and after the Err. The cipher is an oracle that, like the built-in verify-then-decrypt backends, leaves its output untouched when rejecting. NOT claimed: the behaviour of ring's in-place open (FFI, not encodable).",
    ORACLE + "; " + HOOK, [ORACLE], {"quick": "NN r1, XX r1 (both fields), both transport kinds; payload <= 4 / 24 bytes"}, ["ring backend", "what RustCrypto's decrypt_in_place_detached leaves in `out` on failure (verify-before-decrypt in the upstream crates; harness-real when present)"],
    ["CipherState::decrypt_ad", "StatelessCipherState::decrypt_ad", "SymmetricState::decrypt_and_mix_hash", "HandshakeState::read_message", "TransportState::read_message", "StatelessTransportState::read_message"], ["oracle cipher leaves out untouched on rejection"])
add("C20",
    "Half within reach, decided: FallbackResolver over two stub resolvers whose availability per (primitive kind, choice) is symbolic returns Some iff either member provides the primitive, and the preferred member's object whenever it does (identity through name() / RNG output): the whole finite space per primitive kind in one query. NOT claimed: wire-equivalence of the default and ring backends (needs ring's C/assembly: not encodable).",
    "tagged stub resolvers; finite space covered completely", ["TagResolver<0>, TagResolver<1>"], {"quick": "all (kind, choice, availability) combinations"}, ["default vs ring wire equivalence (FFI)"],
    ["FallbackResolver::{new,resolve_rng,resolve_dh,resolve_hash,resolve_cipher}"], ["stub resolvers"], exhaustive=True)
C["C18"]["crates"] = ["core", "real"]
C["C19"]["crates"] = ["core", "real"]
C["C18"]["timeout"] = {"quick": 600, "thorough": 3600}
C["C13"]["timeout"] = {"quick": 600, "thorough": 3600}
C["C07"]["timeout"] = {"quick": 600, "thorough": 3600}
# the slowest quick queries of C02 / C12 take 5-9.5 min depending on machine load: a 10 min cap would be too close
C["C02"]["timeout"] = {"quick": 1500, "thorough": 1800}
C["C12"]["timeout"] = {"quick": 1500, "thorough": 1800}
json.dump(C, open(os.path.join(V, "runner", "checks.json"), "w"), indent=1)
json.dump([], open(os.path.join(V, "runner", "not_applicable.json"), "w"), indent=1)
print(len(C), "checks")
