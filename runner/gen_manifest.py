#!/usr/bin/env python3
"""Generates MANIFEST.json from runner/checks.json (claimed checks) + runner/not_applicable.json."""
import json, os
V = os.path.dirname(os.path.dirname(os.path.abspath(__file__)))
cfg = json.load(open(os.path.join(V, "runner", "checks.json")))
na = json.load(open(os.path.join(V, "runner", "not_applicable.json")))
hooks_commits = [l.split()[0] for l in os.popen("git -C /repo log --oneline --grep='^verif-hooks' --format='%h %s'").read().splitlines()]
checks = []
for cid in sorted(cfg):
    c = cfg[cid]
    if not c.get("claimed", True):
        continue
    checks.append(dict(
        property_id=cid,
        quick_cmd="./check %s --tier quick" % cid,
        thorough_cmd="./check %s --tier thorough" % cid,
        evidence_file="evidence/%s.json" % cid,
        replay_cmd_template="./check %s --replay {path}" % cid,
        engine="kani-cbmc",
        level_claimed=dict(category="model_checking", text=c["level_text"], design_ref=c.get("design_ref", "DESIGN.md section 4, " + cid)),
        level_note=c["level_note"],
        technique=c.get("technique", "bounded symbolic execution of the compiled snow code (Kani 0.68 -> CBMC 6.11), SAT-decided (CaDiCaL), unwinding assertions on"),
    ))
m = dict(
    version=1,
    setup_cmd="./check --setup",
    hooks=dict(guard="verif-hooks (cargo feature, off by default)",
               enable="path dependency snow = { path = \"/repo\", features = [\"verif-hooks\"] } in /verif/harness-*/Cargo.toml",
               baseline_off_cmd="cd /repo && cargo test --workspace --no-fail-fast --offline",
               source_commits=hooks_commits, add_only=True),
    engines=[dict(name="kani-cbmc", path="/root/.kani/kani-0.68.0", serves_properties=[c["property_id"] for c in checks],
                  kind_free_text="Kani 0.68.0 compiles /repo + harness crate to goto programs; CBMC 6.11.0 symbolically executes them; CaDiCaL decides; runner/run.py schedules one solver query per harness")],
    checks=checks,
    notes="All claims are bounded (see DESIGN.md and each evidence file's coverage.bounds); no unbounded claim is made.",
    not_applicable=na,
)
json.dump(m, open(os.path.join(V, "MANIFEST.json"), "w"), indent=1)
print("MANIFEST.json:", len(checks), "checks,", len(na), "not applicable")
