#!/bin/bash
# Like try_seed.sh, but WITHOUT touching /repo: the seeded change is applied to a scratch git worktree of /repo's HEAD,
# which is bind-mounted over /repo inside a private mount namespace; cache, evidence and replays of that run go to scratch
# directories as well. Several of these (and ordinary checks) can run at the same time.
# usage: try_seed_ns.sh <seed dir name> <Cxx> [tier] [extra args to ./check]
seed=$1; cid=$2; tier=${3:-quick}; shift 3
wt=/tmp/seedns/$seed.$cid
rm -rf "$wt"; mkdir -p /tmp/seedns
git -C /repo worktree add -q --detach "$wt/repo" HEAD || exit 2
git -C "$wt/repo" apply /verif/seeded/$seed/patch.diff || exit 2
cp /repo/Cargo.lock "$wt/repo/Cargo.lock" 2>/dev/null
mkdir -p "$wt/cache" "$wt/evidence" "$wt/replays"
log=/verif/.cache/seed_${seed}_${cid}.log
unshare -m bash -c "mount --bind $wt/repo /repo && mount --bind $wt/cache /verif/.cache && mount --bind $wt/evidence /verif/evidence && mount --bind $wt/replays /verif/replays && cd /verif && VERIF_MAX_REPLAYS=\${VERIF_MAX_REPLAYS:-1} ./check $cid --tier $tier $*" > "$wt/run.log" 2>&1
rc=$?
cp "$wt/run.log" "$log"
echo "$seed $cid rc=$rc"
grep -E "VIOLATION|failed|undecided" "$log" | head -6
git -C /repo worktree remove --force "$wt/repo"; rm -rf "$wt"
exit 0
