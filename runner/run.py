#!/usr/bin/env python3
"""Runner for the solver-based checks of mcginty/snow (see /verif/DESIGN.md).

  run.py <Cxx> --tier quick|thorough        decide property Cxx: compile the harness crate against /repo's
                                            current working tree with Kani, run one CBMC query per harness,
                                            replay counterexamples natively, write evidence/<Cxx>.json
  run.py <Cxx> --replay <file>              re-run a recorded counterexample natively
  run.py --setup                            warm the build caches, validate the reference model natively

exit 0: property held on everything explored;  exit 1: "VIOLATION property=<id> replay=<path>" printed;
exit 2: inconclusive / infrastructure problem (never reported as success, never as a violation).
"""
import argparse, concurrent.futures as cf, glob, json, os, re, shutil, subprocess, sys, time

VERIF = os.path.dirname(os.path.dirname(os.path.abspath(__file__)))
CACHE = os.path.join(VERIF, ".cache")
KANI_HOME = os.environ.get("KANI_HOME", "/root/.kani/kani-0.68.0")
CBMC = os.path.join(KANI_HOME, "bin", "cbmc")
ENV = dict(os.environ, CARGO_NET_OFFLINE="true")

KANI_FLAGS = ["-Z", "restrict-vtable", "-Z", "stubbing", "-Z", "unstable-options", "--no-assertion-reach-checks"]
CBMC_FLAGS = ["--no-malloc-may-fail", "--no-undefined-shift-check", "--no-signed-overflow-check", "--nan-check",
              "--no-self-loops-to-assumptions", "--no-pointer-primitive-check", "--object-bits", "16",
              "--sat-solver", "cadical", "--slice-formula", "--max-field-sensitivity-array-size", "512"]

# which harness crate serves which property, and crate-specific settings
CRATES = {
    "core": dict(dir="harness-core", rustflags=""),
    "real": dict(dir="harness-real",
                 rustflags="--cfg chacha20_force_soft --cfg poly1305_force_soft --cfg aes_force_soft --cfg polyval_force_soft"),
}


def log(*a):
    print(*a, flush=True)


def sh(cmd, **kw):
    return subprocess.run(cmd, stdout=subprocess.PIPE, stderr=subprocess.STDOUT, text=True, **kw)


def load_cfg():
    return json.load(open(os.path.join(VERIF, "runner", "checks.json")))


# --------------------------------------------------------------------------------------------- build

def harness_names(crate_dir, cid, tier):
    """Harness functions are named <cid>_<q|t>_<what>; quick = q only, thorough = q + t."""
    names = set()
    pat = re.compile(r"\b(%s_[qt]_[A-Za-z0-9_]+)\b" % cid.lower())
    for f in glob.glob(os.path.join(VERIF, crate_dir, "src", "proofs", "*.rs")):
        src = open(f).read()
        for m in pat.finditer(src):
            names.add(m.group(1))
    if tier == "quick":
        names = {n for n in names if n.split("_")[1] == "q"}
    return sorted(names)


def codegen(crate, names, seed, workdir):
    """One `cargo kani --only-codegen` for all selected harnesses; returns the metadata entries."""
    c = CRATES[crate]
    cdir = os.path.join(VERIF, c["dir"])
    lock = os.path.join(cdir, "Cargo.lock")
    if not os.path.exists(lock) and os.path.exists("/repo/Cargo.lock"):
        shutil.copy("/repo/Cargo.lock", lock)
    target = os.path.join(CACHE, "target-" + crate)
    cmd = ["cargo", "kani", "--target-dir", target] + KANI_FLAGS + ["--only-codegen"]
    for n in names:
        cmd += ["--harness", n]
    env = dict(ENV, VERIF_SEED=str(seed))
    if c["rustflags"]:
        env["RUSTFLAGS"] = c["rustflags"]
    t0 = time.time()
    r = sh(cmd, cwd=cdir, env=env)
    open(os.path.join(workdir, "codegen.log"), "w").write(r.stdout)
    if r.returncode != 0:
        log(r.stdout[-4000:])
        raise SystemExit(2)
    metas = glob.glob(os.path.join(target, "kani", "*", "debug", "build", c["dir"], "*", "out", "*.kani-metadata.json"))
    metas += glob.glob(os.path.join(target, "kani", "*", "debug", "deps", "*.kani-metadata.json"))
    metas = [m for m in metas if os.path.getmtime(m) >= t0 - 1]
    if not metas:
        log("no fresh kani metadata found after codegen")
        raise SystemExit(2)
    meta = json.load(open(max(metas, key=os.path.getmtime)))
    out = {}
    for h in meta["proof_harnesses"]:
        short = h["pretty_name"].split("::")[-1]
        out[short] = h
    missing = [n for n in names if n not in out]
    if missing:
        log("harnesses missing from codegen:", missing)
        raise SystemExit(2)
    return out, time.time() - t0


# ------------------------------------------------------------------------------------------- one job

def run_job(args):
    name, h, workdir, timeout, mem_kb, solver = args
    base = h["goto_file"][: -len(".symtab.out")]
    res = dict(harness=name, unwind=h["attributes"].get("unwind_value"))
    t0 = time.time()
    r = sh([os.path.join(VERIF, "runner", "gotopipe.sh"), base, h["mangled_name"], "1"])
    res["pipeline_s"] = round(time.time() - t0, 1)
    if r.returncode != 0:
        res.update(status="error", detail="goto pipeline failed: " + r.stdout[-500:])
        return res
    flags = list(CBMC_FLAGS)
    if solver != "cadical":
        flags[flags.index("cadical")] = solver
    unwind = h["attributes"].get("unwind_value")
    cmd = [CBMC] + flags + (["--unwind", str(unwind)] if unwind else []) + [base + ".out", "--verbosity", "8", "--json-ui"]
    out_path = os.path.join(workdir, name + ".json")
    t1 = time.time()
    with open(out_path, "w") as f:
        p = subprocess.run("ulimit -v %d; exec timeout -k 5 %d %s" % (mem_kb, timeout, " ".join("'%s'" % c for c in cmd)),
                           shell=True, stdout=f, stderr=subprocess.STDOUT)
    res["cbmc_s"] = round(time.time() - t1, 1)
    res["rc"] = p.returncode
    if p.returncode == 124 or p.returncode == 137:
        res.update(status="timeout", detail="cbmc exceeded %ds" % timeout)
        return res
    try:
        parse_cbmc(out_path, res)
    except Exception as e:  # truncated JSON = out of memory / crash
        res.update(status="error", detail="cbmc output unparsable (%s); rc=%s" % (e, p.returncode))
    return res


STAT_RE = {
    "symex_s": re.compile(r"Runtime Symex: ([0-9.]+)s"),
    "solver_s": re.compile(r"Runtime Solver: ([0-9.]+)s"),
    "vccs": re.compile(r"Generated (\d+) VCC\(s\), (\d+) remaining"),
    "sat": re.compile(r"(\d+) variables, (\d+) clauses"),
}


def parse_cbmc(path, res):
    data = json.load(open(path))
    props = []
    symex = solver = 0.0
    vccs = rem = nvars = nclauses = 0
    status_msg = None
    for item in data:
        if "messageText" in item:
            t = item["messageText"]
            m = STAT_RE["symex_s"].search(t)
            if m:
                symex += float(m.group(1))
            m = STAT_RE["solver_s"].search(t)
            if m:
                solver += float(m.group(1))
            m = STAT_RE["vccs"].search(t)
            if m:
                vccs, rem = int(m.group(1)), int(m.group(2))
            m = STAT_RE["sat"].search(t)
            if m:
                nvars, nclauses = max(nvars, int(m.group(1))), max(nclauses, int(m.group(2)))
            if item.get("messageType") == "ERROR":
                status_msg = t
        if "result" in item:
            props = item["result"]
        if "cProverStatus" in item:
            res["cprover_status"] = item["cProverStatus"]
    res.update(symex_s=round(symex, 1), solver_s=round(solver, 1), vccs=vccs, vccs_remaining=rem,
               sat_variables=nvars, sat_clauses=nclauses, properties=len(props))
    if not props:
        res.update(status="error", detail=status_msg or "no result array in cbmc output")
        return
    covers_ok = covers_total = 0
    fails = []
    inconclusive = []
    for p in props:
        desc = p.get("description", "")
        st = p.get("status")
        pid = p.get("property", "")
        loc = p.get("sourceLocation", {})
        if ".cover." in pid or pid.startswith("cover"):
            covers_total += 1
            if st in ("FAILURE", "SATISFIED"):
                covers_ok += 1
            continue
        if st == "SUCCESS":
            continue
        if st == "FAILURE":
            if "unwinding assertion" in desc:
                inconclusive.append("unwinding bound too small: %s" % loc.get("function", pid))
            elif "not currently supported by Kani" in desc or "sanity check" in desc:
                inconclusive.append("unsupported construct reachable: %s" % desc[:120])
            else:
                fails.append(dict(property=pid, description=desc, file=loc.get("file", ""), line=loc.get("line", ""),
                                  function=loc.get("function", "")))
        else:
            inconclusive.append("status %s for %s" % (st, pid))
    res.update(covers=covers_total, covers_satisfied=covers_ok, failures=fails)
    if inconclusive:
        res.update(status="inconclusive", detail="; ".join(sorted(set(inconclusive))[:5]))
    elif fails:
        res["status"] = "failed"
    elif covers_total == 0 or covers_ok < covers_total:
        res.update(status="vacuous", detail="%d of %d reachability witnesses satisfied" % (covers_ok, covers_total))
    else:
        res["status"] = "ok"


# -------------------------------------------------------------------------------------------- replay

def extract_playback(crate, name, seed, workdir, timeout):
    """Slow path, only on a failing harness: ask Kani for the concrete values of the counterexample."""
    c = CRATES[crate]
    cdir = os.path.join(VERIF, c["dir"])
    target = os.path.join(CACHE, "target-" + crate + "-pb")
    cmd = ["cargo", "kani", "--target-dir", target] + KANI_FLAGS + [
        "-Z", "concrete-playback", "--concrete-playback=print", "--harness", name,
        "--cbmc-args", "--max-field-sensitivity-array-size", "512"]
    env = dict(ENV, VERIF_SEED=str(seed))
    if c["rustflags"]:
        env["RUSTFLAGS"] = c["rustflags"]
    try:
        r = subprocess.run(cmd, cwd=cdir, env=env, stdout=subprocess.PIPE, stderr=subprocess.STDOUT, text=True,
                           timeout=timeout)
    except subprocess.TimeoutExpired:
        return None
    open(os.path.join(workdir, name + ".playback.log"), "w").write(r.stdout)
    m = re.search(r"```\s*\n(.*?)```", r.stdout, re.S)
    if not m:
        return None
    body = m.group(1)
    vals = []
    for vm in re.finditer(r"vec!\[([0-9,\s]*)\]", body):
        inner = vm.group(1).strip()
        if inner == "" and "concrete_vals" in body[max(0, vm.start() - 40):vm.start()]:
            continue
        vals.append([int(x) for x in inner.replace("\n", " ").split(",") if x.strip() != ""])
    # the outer `vec![` of concrete_vals is not matched by the regex above (it contains nested brackets)
    return vals


def native_replay(crate, rec, workdir, profile_release=False):
    """Run the harness function natively (real snow build + stubs) on the recorded concrete values."""
    c = CRATES[crate]
    cdir = os.path.join(VERIF, c["dir"])
    path = os.path.join(workdir, "replay_input.json")
    json.dump(rec, open(path, "w"))
    env = dict(ENV, VERIF_SEED=str(rec.get("seed", 0)), VERIF_REPLAY_FILE=path)
    if c["rustflags"]:
        env["RUSTFLAGS"] = c["rustflags"]
    cmd = ["cargo", "kani", "playback", "-Z", "concrete-playback"] + (["--release"] if profile_release else []) + \
          ["--", "replay_from_file", "--nocapture"]
    env["CARGO_TARGET_DIR"] = os.path.join(CACHE, "target-" + crate + "-native")
    r = sh(cmd, cwd=cdir, env=env)
    tag = "release" if profile_release else "dev"
    open(os.path.join(workdir, rec["harness"] + ".replay.%s.log" % tag), "w").write(r.stdout)
    if "REPLAY-RESULT: reproduced" in r.stdout:
        return True, r.stdout
    if "REPLAY-RESULT: passed" in r.stdout:
        return False, r.stdout
    return None, r.stdout


# ---------------------------------------------------------------------------------- known findings

def load_known():
    p = os.path.join(VERIF, "known_findings.json")
    if not os.path.exists(p):
        return []
    return json.load(open(p)).get("findings", [])


def match_known(known, cid, harness, failure):
    for k in known:
        if k.get("status") != "known":
            continue
        if k["property"] != cid:
            continue
        if not re.fullmatch(k["harness_role"], harness):
            continue
        if not re.search(k["failure"], failure["description"]):
            continue
        return k
    return None


# ---------------------------------------------------------------------------------------------- main

def main():
    ap = argparse.ArgumentParser()
    ap.add_argument("cid", nargs="?")
    ap.add_argument("--tier", default=os.environ.get("VERIF_TIER", "quick"))
    ap.add_argument("--replay")
    ap.add_argument("--setup", action="store_true")
    ap.add_argument("--jobs", type=int, default=int(os.environ.get("VERIF_JOBS", "14")))
    ap.add_argument("--only", help="regex: restrict to matching harnesses (debugging)")
    a = ap.parse_args()
    os.makedirs(CACHE, exist_ok=True)
    if a.setup:
        return setup()
    cfg = load_cfg()
    cid = a.cid.upper()
    if cid not in cfg:
        log("unknown property", cid)
        return 2
    chk = cfg[cid]
    seed = int(os.environ.get("VERIF_SEED", "0") or 0)
    tier = a.tier if a.tier in ("quick", "thorough") else "quick"
    workdir = os.path.join(CACHE, "work", "%s-%s" % (cid, tier))
    shutil.rmtree(workdir, ignore_errors=True)
    os.makedirs(workdir)
    if a.replay:
        return do_replay(cid, chk, a.replay, workdir)

    t_start = time.time()
    crate = chk.get("crate", "core")
    names = harness_names(CRATES[crate]["dir"], cid, tier)
    if a.only:
        names = [n for n in names if re.search(a.only, n)]
    if not names:
        log("no harnesses for", cid, tier)
        return 2
    log("[%s/%s] %d harnesses, seed %d; compiling /repo working tree + harness crate with Kani ..." % (cid, tier, len(names), seed))
    meta, t_build = codegen(crate, names, seed, workdir)
    timeout = int(os.environ.get("VERIF_JOB_TIMEOUT", chk.get("timeout", {}).get(tier, 600 if tier == "quick" else 1800)))
    mem_kb = int(os.environ.get("VERIF_JOB_MEM_KB", str(12 * 1024 * 1024)))
    solver = "cadical"
    jobs = [(n, meta[n], workdir, timeout, mem_kb, solver) for n in names]
    results = []
    with cf.ThreadPoolExecutor(max_workers=a.jobs) as ex:
        for r in ex.map(run_job, jobs):
            results.append(r)
            log("  %-44s %-12s symex %6.1fs  solver %6.1fs  %s" % (r["harness"], r["status"], r.get("symex_s", 0),
                                                                  r.get("solver_s", 0), r.get("detail", "")[:160]))
    known = load_known()
    violations = []
    known_hits = []
    undecided = [r for r in results if r["status"] not in ("ok", "failed")]
    for r in results:
        if r["status"] != "failed":
            continue
        new_fail = []
        for f in r["failures"]:
            k = match_known(known, cid, r["harness"], f)
            if k:
                known_hits.append((k, r["harness"], f))
            else:
                new_fail.append(f)
        if not new_fail:
            continue
        # counterexample -> concrete values -> native replay against the real build
        log("  counterexample in %s: %s" % (r["harness"], new_fail[0]["description"]))
        vals = extract_playback(crate, r["harness"], seed, workdir, timeout * 4 + 600)
        rec = dict(property=cid, harness=r["harness"], crate=crate, seed=seed, failures=new_fail, concrete_vals=vals)
        os.makedirs(os.path.join(VERIF, "replays"), exist_ok=True)
        rpath = os.path.join(VERIF, "replays", "%s_%s.json" % (cid, r["harness"]))
        json.dump(rec, open(rpath, "w"), indent=1)
        if vals is None:
            log("  could not extract concrete values for %s -> inconclusive" % r["harness"])
            r["status"] = "inconclusive"
            r["detail"] = "counterexample found but concrete playback extraction failed"
            undecided.append(r)
            continue
        rep_dev, out = native_replay(crate, rec, workdir, False)
        rep_rel, _ = native_replay(crate, rec, workdir, True)
        rec["replay"] = dict(dev=rep_dev, release=rep_rel)
        json.dump(rec, open(rpath, "w"), indent=1)
        if rep_dev or rep_rel:
            violations.append((r["harness"], new_fail, rpath))
        else:
            log("  counterexample of %s does not reproduce natively (dev=%s release=%s) -> encoding problem, exit 2"
                % (r["harness"], rep_dev, rep_rel))
            r["status"] = "inconclusive"
            r["detail"] = "solver counterexample did not reproduce natively"
            undecided.append(r)

    for k, hn, f in known_hits:
        log("KNOWN-FINDING: property=%s %s [%s: %s]" % (cid, k["what"], hn, f["description"]))
    write_evidence(cid, chk, tier, seed, results, violations, known_hits, undecided, time.time() - t_start, t_build, meta)
    for hn, fl, rpath in violations:
        log("VIOLATION property=%s replay=%s" % (cid, rpath))
        for f in fl[:3]:
            log("   %s: %s (%s:%s)" % (hn, f["description"], f["file"], f["line"]))
    if violations:
        return 1
    decided = [r for r in results if r["status"] in ("ok", "failed")]
    if undecided:
        log("[%s/%s] %d of %d harnesses undecided: %s" % (cid, tier, len(undecided), len(results),
                                                          ", ".join("%s(%s)" % (r["harness"], r["status"]) for r in undecided)))
        # a quick tier must be fully decided; a thorough tier reports what it decided and fails only if nothing was
        if tier == "quick" or not decided:
            return 2
    log("[%s/%s] held on %d harnesses (%d solver queries), %.0fs" % (cid, tier, len(decided), len(decided), time.time() - t_start))
    return 0


def write_evidence(cid, chk, tier, seed, results, violations, known_hits, undecided, wall, t_build, meta):
    decided = [r for r in results if r["status"] in ("ok", "failed")]
    nontrivial = [r for r in decided if r.get("covers_satisfied", 0) >= 1 and r.get("sat_variables", 0) > 0]
    samples = []
    for r in results[:3]:
        samples.append(dict(harness=r["harness"], unwind=r.get("unwind"), status=r["status"], properties_checked=r.get("properties"),
                            vccs=r.get("vccs"), sat_variables=r.get("sat_variables"), symex_s=r.get("symex_s"), solver_s=r.get("solver_s")))
    ev = dict(
        property_id=cid, tier=tier, seed=seed, level="model_checking",
        coverage=dict(
            evaluations=len(decided),
            distinct_nontrivial=len(nontrivial),
            rule=("one evaluation = one Kani/CBMC solver query (proof harness) over symbolic inputs, regenerated from /repo's "
                  "working tree; counted as non-trivial and distinct when its reachability witness (kani::cover!) was SATISFIED "
                  "and the SAT instance had > 0 variables; harness names are distinct configurations"),
            samples=samples,
            harnesses=[dict(harness=r["harness"], status=r["status"], unwind=r.get("unwind"), properties=r.get("properties"),
                            vccs=r.get("vccs"), vccs_remaining=r.get("vccs_remaining"), sat_variables=r.get("sat_variables"),
                            sat_clauses=r.get("sat_clauses"), symex_s=r.get("symex_s"), solver_s=r.get("solver_s"),
                            detail=r.get("detail")) for r in results],
            inconclusive=[dict(harness=r["harness"], status=r["status"], detail=r.get("detail")) for r in undecided],
            functions_encoded=chk.get("functions_encoded", []),
            stubs=chk.get("stubs", []),
            bounds=chk.get("bounds", {}).get(tier, chk.get("bounds", {})),
            outside_bounds=chk.get("outside", []),
            solver="CBMC 6.11.0 / CaDiCaL via Kani 0.68.0 (unwinding assertions on)",
            symex_s_total=round(sum(r.get("symex_s", 0) for r in results), 1),
            solver_s_total=round(sum(r.get("solver_s", 0) for r in results), 1),
            build_s=round(t_build, 1),
            known_findings_matched=[dict(id=k.get("id"), harness=hn, description=f["description"]) for k, hn, f in known_hits],
            exhaustive=bool(chk.get("exhaustive", False)) and not undecided,
        ),
        assumptions=chk.get("assumptions", []),
        wall_s=round(wall, 1),
        violations=len(violations),
    )
    os.makedirs(os.path.join(VERIF, "evidence"), exist_ok=True)
    json.dump(ev, open(os.path.join(VERIF, "evidence", cid + ".json"), "w"), indent=1)


def do_replay(cid, chk, path, workdir):
    rec = json.load(open(path))
    crate = rec.get("crate", chk.get("crate", "core"))
    rep, out = native_replay(crate, rec, workdir, False)
    log(out[-3000:])
    if rep:
        log("VIOLATION property=%s replay=%s" % (cid, path))
        return 1
    return 0 if rep is False else 2


def setup():
    rc = 0
    for crate, c in CRATES.items():
        cdir = os.path.join(VERIF, c["dir"])
        if not os.path.isdir(cdir):
            continue
        shutil.copy("/repo/Cargo.lock", os.path.join(cdir, "Cargo.lock")) if not os.path.exists(os.path.join(cdir, "Cargo.lock")) else None
    r = sh(["cargo", "test", "--release", "--offline", "--", "--nocapture"], cwd=os.path.join(VERIF, "replay"), env=ENV) \
        if os.path.isdir(os.path.join(VERIF, "replay")) else None
    if r is not None:
        log(r.stdout[-2500:])
        if r.returncode != 0:
            log("reference-model self-validation FAILED")
            rc = 2
    return rc


if __name__ == "__main__":
    sys.exit(main())
