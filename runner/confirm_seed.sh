#!/bin/bash
# confirm a seeded change in its scratch worktree: existing suite passes with it, demo fails with it, demo passes without it
id=$1; d=/tmp/mut/$id; lc=$(echo $id | tr A-Z a-z)
cd $d || exit 2
export CARGO_TARGET_DIR=$d/target
git diff -- src > patch.diff
echo "== patch: $(git diff --stat -- src | tail -1)"
mv tests/demo_$lc.rs /tmp/mut/demo_$lc.rs.hold
suite=$(cargo test --offline 2>&1 | grep -E "^test result" | awk '{p+=$4; f+=$6} END {print p" passed "f" failed"}')
mv /tmp/mut/demo_$lc.rs.hold tests/demo_$lc.rs
echo "== existing suite with change: $suite"
with=$(cargo test --offline --test demo_$lc 2>&1 | grep -E "^test result" | head -1)
echo "== demo with change: $with"
git stash push -q -- src
without=$(cargo test --offline --test demo_$lc 2>&1 | grep -E "^test result" | head -1)
git stash pop -q
echo "== demo without change: $without"
