#!/bin/bash
# apply a seeded change to /repo, run one check against it, undo the change. usage: try_seed.sh <seed dir name> <Cxx> [tier] [extra args]
seed=$1; cid=$2; tier=${3:-quick}; shift 3
cd /verif
if [ -n "$(git -C /repo status --porcelain)" ]; then echo "/repo not clean"; exit 2; fi
git -C /repo apply /verif/seeded/$seed/patch.diff || exit 2
./check $cid --tier $tier "$@" > .cache/seed_${seed}_${cid}.log 2>&1
rc=$?
git -C /repo checkout -- .
echo "$seed $cid rc=$rc"
grep -E "VIOLATION|failed|undecided" .cache/seed_${seed}_${cid}.log | head -6
# evidence written against a mutated tree is not evidence
git -C /verif checkout -- evidence/$cid.json 2>/dev/null
rm -f /verif/replays/${cid}_*.json.tmp
exit 0
