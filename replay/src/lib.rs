//! Native tests: reference-model validation against pinned vectors, and demonstrations of recorded defects.
