//! Demonstrations, against the real build with the real DefaultResolver, of the genuine defects that the
//! solver-based checks found (DESIGN.md section 6, known_findings.json). Each test fails on the pinned tree
//! and passes once the corresponding `fix:` commit is applied.
use snow::{params::NoiseParams, Builder, Error};
use std::panic::{catch_unwind, AssertUnwindSafe};

fn xx_pair() -> (snow::HandshakeState, snow::HandshakeState) {
    let params: NoiseParams = "Noise_XX_25519_ChaChaPoly_SHA256".parse().unwrap();
    let bi = Builder::new(params.clone());
    let br = Builder::new(params);
    let ki = bi.generate_keypair().unwrap();
    let kr = br.generate_keypair().unwrap();
    let i = bi.local_private_key(&ki.private).unwrap().build_initiator().unwrap();
    let r = br.local_private_key(&kr.private).unwrap().build_responder().unwrap();
    (i, r)
}

/// F1 (C14/C10): XX responder message 2 into a buffer that fits `e` + `s` but not the tag of `s`.
#[test]
fn f1_write_buffer_fits_s_but_not_its_tag() {
    for cap in 60..=100usize {
        let (mut i, mut r) = xx_pair();
        let mut m = [0u8; 256];
        let mut p = [0u8; 256];
        let n = i.write_message(&[], &mut m).unwrap();
        r.read_message(&m[..n], &mut p).unwrap();
        let mut out = vec![0u8; cap];
        let res = catch_unwind(AssertUnwindSafe(|| r.write_message(&[], &mut out)));
        // message 2 of XX with an empty payload is 32 + 48 + 16 = 96 bytes
        match res {
            Err(_) => panic!("write_message panicked with a {cap}-byte buffer"),
            Ok(Ok(n)) => assert!(cap >= 96 && n == 96),
            Ok(Err(e)) => assert!(cap < 96 + 16 && e == Error::Input, "cap {cap}: {e:?}"),
        }
    }
}

// ------------------------------------------------------------------------------------------------ F3

fn xx_pair_after_two() -> (snow::HandshakeState, snow::HandshakeState) {
    let (mut i, mut r) = xx_pair();
    let mut m = [0u8; 256];
    let mut p = [0u8; 256];
    let n = i.write_message(b"a", &mut m).unwrap();
    r.read_message(&m[..n], &mut p).unwrap();
    let n = r.write_message(b"b", &mut m).unwrap();
    i.read_message(&m[..n], &mut p).unwrap();
    (i, r)
}

/// F3 (C07): XX message 3 is "s, se" + payload. A delivery whose *payload* tag is corrupted fails after the
/// static key was decrypted and a key was mixed; the genuine message must still be accepted afterwards.
#[test]
fn f3_failed_read_then_genuine_message() {
    let (mut i, mut r) = xx_pair_after_two();
    let mut m = [0u8; 256];
    let mut p = [0u8; 256];
    let n = i.write_message(b"hello", &mut m).unwrap();
    let mut bad = m;
    bad[n - 1] ^= 1;
    assert!(r.read_message(&bad[..n], &mut p).is_err());
    assert!(!r.is_handshake_finished() && !r.is_my_turn());
    let res = r.read_message(&m[..n], &mut p);
    assert_eq!(res, Ok(5), "genuine message 3 rejected after a failed delivery");
    assert!(r.is_handshake_finished());
}

/// F3 (C07): a write into a buffer that fits the encrypted static key but not the payload fails; the retried
/// message must still be accepted by the peer.
#[test]
fn f3_failed_write_then_retry() {
    let (mut i, mut r) = xx_pair_after_two();
    let mut small = [0u8; 50]; // s (32+16) fits, payload (5+16) does not
    let mut m = [0u8; 256];
    let mut p = [0u8; 256];
    assert_eq!(i.write_message(b"hello", &mut small), Err(Error::Input));
    let n = i.write_message(b"hello", &mut m).unwrap();
    assert_eq!(r.read_message(&m[..n], &mut p), Ok(5), "retried message 3 rejected by the peer");
}

/// F3 (C07): genuine message, payload buffer too small, then the same message with a large enough buffer.
#[test]
fn f3_small_payload_buffer_then_retry() {
    let (mut i, mut r) = xx_pair_after_two();
    let mut m = [0u8; 256];
    let mut p = [0u8; 256];
    let n = i.write_message(b"hello", &mut m).unwrap();
    assert!(r.read_message(&m[..n], &mut p[..2]).is_err());
    assert_eq!(r.read_message(&m[..n], &mut p), Ok(5), "genuine message 3 rejected after an undersized payload buffer");
}

// ------------------------------------------------------------------------------------------------ F4

mod rec {
    use snow::params::{CipherChoice, DHChoice, HashChoice};
    use snow::resolvers::{CryptoResolver, DefaultResolver};
    use snow::types::{Cipher, Dh, Hash, Random};
    use std::sync::{Arc, Mutex};

    pub type Log = Arc<Mutex<Vec<([u8; 32], u64, Vec<u8>, Vec<u8>)>>>;
    pub struct RecCipher {
        pub inner: Box<dyn Cipher>,
        pub key: [u8; 32],
        pub log: Log,
    }
    impl Cipher for RecCipher {
        fn name(&self) -> &'static str {
            self.inner.name()
        }
        fn set(&mut self, key: &[u8; 32]) {
            self.key = *key;
            self.inner.set(key)
        }
        fn encrypt(&self, nonce: u64, ad: &[u8], pt: &[u8], out: &mut [u8]) -> usize {
            self.log.lock().unwrap().push((self.key, nonce, ad.to_vec(), pt.to_vec()));
            self.inner.encrypt(nonce, ad, pt, out)
        }
        fn decrypt(&self, nonce: u64, ad: &[u8], ct: &[u8], out: &mut [u8]) -> Result<usize, snow::Error> {
            self.inner.decrypt(nonce, ad, ct, out)
        }
    }
    pub struct RecResolver(pub Log);
    impl CryptoResolver for RecResolver {
        fn resolve_rng(&self) -> Option<Box<dyn Random>> {
            DefaultResolver.resolve_rng()
        }
        fn resolve_dh(&self, c: &DHChoice) -> Option<Box<dyn Dh>> {
            DefaultResolver.resolve_dh(c)
        }
        fn resolve_hash(&self, c: &HashChoice) -> Option<Box<dyn Hash>> {
            DefaultResolver.resolve_hash(c)
        }
        fn resolve_cipher(&self, c: &CipherChoice) -> Option<Box<dyn Cipher>> {
            Some(Box::new(RecCipher { inner: DefaultResolver.resolve_cipher(c)?, key: [0; 32], log: self.0.clone() }))
        }
    }
}

/// F4 (C06): K1K1 message 3 is "se" + payload. An oversize payload is detected only after it was encrypted;
/// the retry derives the same key again and encrypts other data under the same (key, nonce).
#[test]
fn f4_no_key_nonce_reuse_after_oversize_payload() {
    let params: NoiseParams = "Noise_K1K1_25519_ChaChaPoly_SHA256".parse().unwrap();
    let log: rec::Log = Default::default();
    let bi = Builder::with_resolver(params.clone(), Box::new(rec::RecResolver(log.clone())));
    let br = Builder::new(params);
    let ki = bi.generate_keypair().unwrap();
    let kr = br.generate_keypair().unwrap();
    let mut i = bi.local_private_key(&ki.private).unwrap().remote_public_key(&kr.public).unwrap().build_initiator().unwrap();
    let mut r = br.local_private_key(&kr.private).unwrap().remote_public_key(&ki.public).unwrap().build_responder().unwrap();
    let mut m = vec![0u8; 70000];
    let mut p = vec![0u8; 70000];
    let n = i.write_message(b"", &mut m).unwrap();
    r.read_message(&m[..n], &mut p).unwrap();
    let n = r.write_message(b"", &mut m).unwrap();
    i.read_message(&m[..n], &mut p).unwrap();
    log.lock().unwrap().clear();
    let big = vec![7u8; 65535];
    assert_eq!(i.write_message(&big, &mut m), Err(Error::Input));
    let n = i.write_message(b"hello", &mut m).unwrap();
    assert_eq!(r.read_message(&m[..n], &mut p), Ok(5));
    let l = log.lock().unwrap();
    for a in 0..l.len() {
        for b in a + 1..l.len() {
            if l[a].0 == l[b].0 && l[a].1 == l[b].1 {
                assert!(l[a].2 == l[b].2 && l[a].3 == l[b].3, "two different inputs encrypted under the same key and nonce {}", l[a].1);
            }
        }
    }
}

// ------------------------------------------------------------------------------------------------ F5

/// F5 (C17): with P-256 a public key is 65 bytes and a shared secret 32; after conversion to transport mode the
/// reported remote static key must still be the peer's complete public key.
#[test]
fn f5_remote_static_complete_after_conversion_p256() {
    let params: NoiseParams = "Noise_XX_P256_ChaChaPoly_SHA256".parse().unwrap();
    let bi = Builder::new(params.clone());
    let br = Builder::new(params);
    let ki = bi.generate_keypair().unwrap();
    let kr = br.generate_keypair().unwrap();
    let mut i = bi.local_private_key(&ki.private).unwrap().build_initiator().unwrap();
    let mut r = br.local_private_key(&kr.private).unwrap().build_responder().unwrap();
    let mut m = [0u8; 512];
    let mut p = [0u8; 512];
    let n = i.write_message(b"", &mut m).unwrap();
    r.read_message(&m[..n], &mut p).unwrap();
    let n = r.write_message(b"", &mut m).unwrap();
    i.read_message(&m[..n], &mut p).unwrap();
    let n = i.write_message(b"", &mut m).unwrap();
    r.read_message(&m[..n], &mut p).unwrap();
    assert_eq!(i.get_remote_static().unwrap(), &kr.public[..]);
    assert_eq!(r.get_remote_static().unwrap(), &ki.public[..]);
    let ti = i.into_transport_mode().unwrap();
    let tr = r.into_stateless_transport_mode().unwrap();
    assert_eq!(ti.get_remote_static().unwrap(), &kr.public[..], "TransportState truncates the remote static key");
    assert_eq!(tr.get_remote_static().unwrap(), &ki.public[..], "StatelessTransportState truncates the remote static key");
}

// ------------------------------------------------------------------------------------------------ F2

/// F2 (C10): configuring a builder with keys of any length and building either role must return Ok or Err.
#[test]
fn f2_builder_key_lengths_never_panic() {
    let params: NoiseParams = "Noise_KK_25519_ChaChaPoly_SHA256".parse().unwrap();
    let bytes = [3u8; 200];
    for initiator in [true, false] {
        for (ls, lr, le) in [(33usize, 32usize, 32usize), (32, 57, 32), (32, 32, 33), (200, 200, 200), (32, 56, 32), (0, 0, 0), (31, 32, 32), (32, 33, 32)] {
            let res = catch_unwind(AssertUnwindSafe(|| {
                let b = Builder::new(params.clone())
                    .local_private_key(&bytes[..ls])
                    .unwrap()
                    .remote_public_key(&bytes[..lr])
                    .unwrap()
                    .fixed_ephemeral_key_for_testing_only(&bytes[..le]);
                if initiator {
                    b.build_initiator().map(|_| ())
                } else {
                    b.build_responder().map(|_| ())
                }
            }));
            match res {
                Err(_) => panic!("build panicked for key lengths s={ls} rs={lr} e={le}"),
                Ok(r) => {
                    if (ls, lr, le) != (32, 32, 32) {
                        assert!(r.is_err(), "keys of the wrong length accepted: s={ls} rs={lr} e={le}");
                    }
                },
            }
        }
        let ok = Builder::new(params.clone()).local_private_key(&bytes[..32]).unwrap().remote_public_key(&bytes[..32]).unwrap();
        assert!(if initiator { ok.build_initiator().is_ok() } else { ok.build_responder().is_ok() });
    }
}
