//! Demonstrations, against the real build with the real DefaultResolver, of the genuine defects that the
//! solver-based checks found (DESIGN.md section 6, known_findings.json). Each test fails on the pinned tree
//! and passes once the corresponding `fix:` commit is applied.
use snow::{params::NoiseParams, Builder, Error};
use std::panic::{catch_unwind, AssertUnwindSafe};

fn xx_pair() -> (snow::HandshakeState, snow::HandshakeState) {
    let params: NoiseParams = "Noise_XX_25519_ChaChaPoly_SHA256".parse().unwrap();
    let bi = Builder::new(params.clone());
    let br = Builder::new(params);
    let ki = bi.generate_keypair().unwrap();
    let kr = br.generate_keypair().unwrap();
    let i = bi.local_private_key(&ki.private).unwrap().build_initiator().unwrap();
    let r = br.local_private_key(&kr.private).unwrap().build_responder().unwrap();
    (i, r)
}

/// F1 (C14/C10): XX responder message 2 into a buffer that fits `e` + `s` but not the tag of `s`.
#[test]
fn f1_write_buffer_fits_s_but_not_its_tag() {
    for cap in 60..=100usize {
        let (mut i, mut r) = xx_pair();
        let mut m = [0u8; 256];
        let mut p = [0u8; 256];
        let n = i.write_message(&[], &mut m).unwrap();
        r.read_message(&m[..n], &mut p).unwrap();
        let mut out = vec![0u8; cap];
        let res = catch_unwind(AssertUnwindSafe(|| r.write_message(&[], &mut out)));
        // message 2 of XX with an empty payload is 32 + 48 + 16 = 96 bytes
        match res {
            Err(_) => panic!("write_message panicked with a {cap}-byte buffer"),
            Ok(Ok(n)) => assert!(cap >= 96 && n == 96),
            Ok(Err(e)) => assert!(cap < 96 + 16 && e == Error::Input, "cap {cap}: {e:?}"),
        }
    }
}
